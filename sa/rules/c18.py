"""C18 — names in a memory map are unique and prefix-free; conflicts are refused."""
import ast

from ..core import ir
from .common import get_fn, kwarg
from . import apirules

EXPLANATION = ("MemoryMap / _Namespace: every namespace mutation is preceded on all paths by an availability query over the "
               "same (canonicalised) names whose failing edge raises; anonymous windows absorb their names, named ones are "
               "assigned (must-call); str() never reaches the deciding comparison (taint); the verdict flag is monotone; the "
               "prefix test is one of two hand-verified idioms")


def cond_key(e):
    return ir.split_neg(e)


def specialise(e, conds):
    """Resolve phi nodes whose condition is fixed by the generation-time context."""
    def f(x):
        if x[0] in ('phi', 'ifexp'):
            k, pol = cond_key(x[1])
            for c, p in conds:
                ck, cp = cond_key(c)
                if ck == k:
                    return x[2] if (cp == p) == pol else x[3]
                    # (cond true) iff polarity agrees
        return None
    prev = None
    while prev != e:
        prev = e
        e = ir.norm(ir.subst(e, f))
    return e


def run(rep, idx, tier):
    rep.explanation = EXPLANATION
    rep.assume("A1", "A3", "A4")
    rep.require("C18.1", 6)
    rep.require("C18.2", 4)
    rep.require("C18.3", 1)
    rep.require("C18.4", 3)
    rep.require("C18.5", 2)
    rep.require("C18.6", 1)
    rep.require("C18.7", 1)
    name_ordering(rep, idx)
    from .c19 import shared_state
    shared_state(rep, idx, rule="C18.6", classes=["MemoryMap", "_Namespace"])
    namespace_sites(rep, idx)
    name_class(rep, idx)
    is_available(rep, idx)
    rep.require("C18.8", 1)
    search_domain(rep, idx)
    rep.require("C18.9", 2)
    index_coherence(rep, idx)


def ns_calls(c, attr):
    out = []
    for e, gen, dsl_, ln in c.t.calls:
        if e[0] == 'call':
            ne = c.norm(e)
            if ne[1] == c.parse(f"self._namespace.{attr}"):
                out.append((ne, [(c.norm(fr[1]), fr[2]) for fr in gen if fr[0] == 'pyif'], ln))
    return out


def query_of(rep, idx, c, _depth=0):
    """The availability query whose failing edge raises: returns (call IR, conds) list."""
    fg = apirules.graph(idx, c.fi)
    g = fg.g
    out = []
    for n in g.nodes:
        if n.kind != "test":
            continue
        calls = [cl for cl in fg.calls_in(n.id) if isinstance(cl.func, ast.Attribute) and cl.func.attr == "is_available"
                 and ast.unparse(cl.func.value) == "self._namespace"]
        if not calls:
            continue
        # which edge means "not available"?
        t = n.ast
        neg = isinstance(t, ast.UnaryOp) and isinstance(t.op, ast.Not)
        fail = "true" if neg else "false"
        fail_succ = [m for m, lab in g.succ[n.id] if lab == fail]
        raises = bool(fail_succ) and g.exit.id not in g.reachable(fail_succ)
        out.append((n, calls[0], raises))
    if not out and _depth == 0:
        # the query may live in a private helper of the same class that raises on its failing edge: the statement calling
        # the helper then plays the part of the test (it either raises or falls through)
        for n in g.nodes:
            if n.kind != "stmt" or not isinstance(n.ast, ast.Expr) or not isinstance(n.ast.value, ast.Call):
                continue
            f = n.ast.value.func
            if not (isinstance(f, ast.Attribute) and isinstance(f.value, ast.Name) and f.value.id == "self" and f.attr.startswith("_")):
                continue
            h = c.fi.cls.method(f.attr) if c.fi.cls is not None else None
            if h is None:
                continue
            hc = get_fn(idx, h)
            _, sub = query_of(rep, idx, hc, _depth=1)
            if len(sub) == 1:
                out.append((n, sub[0][1], sub[0][2]))
                c._helper_query = (hc, n.ast.value)
                if not hasattr(c, "_helper_queries"):
                    c._helper_queries = {}
                c._helper_queries[n.id] = (hc, n.ast.value)
    return fg, out


def helper_query(c, hc, call_ast):
    """The is_available(...) call of a guard helper, with the helper's parameters replaced by the caller's (walked) arguments."""
    hq = None
    for cond, gen, ln in hc.t.conds:
        for x in ir.walk(hc.norm(cond)):
            if x[0] == 'call' and x[1] == hc.parse("self._namespace.is_available"):
                hq = x
    if hq is None:
        return None
    # the caller's call, as the walker saw it (local aliases resolved)
    mine = [c.norm(e) for e, gen, dsl_, ln in c.t.calls if e[0] == 'call' and ln == call_ast.lineno and
            e[1] == ('attr', ('name', 'self'), call_ast.func.attr)]
    if len(mine) != 1:
        return None
    call = mine[0]
    params = [p for p in hc.fi.params if p != "self"]
    if len(call[2]) > len(params) or any(a[0] in ('star', 'dstar') for a in call[2]):
        return None
    bind = dict(zip(params, call[2]))
    bind.update({k: v for k, v in call[3] if k in params})
    stores = {n.id for n in ast.walk(hc.fi.node) if isinstance(n, ast.Name) and isinstance(n.ctx, ast.Store)}
    if stores & set(bind):
        return None
    return c.norm(ir.subst(hq, lambda e: bind.get(e[1]) if e[0] == 'name' else None))


def merged_query(c, fg, queries):
    """Two availability queries under `cond` and `not cond`: one query whose arguments are the choice between the two."""
    parts = []
    for n, call_ast, raises in queries:
        q, conds = None, None
        hq = getattr(c, "_helper_queries", {}).get(n.id)
        if hq is not None:
            q = helper_query(c, *hq)
            for e, gen, dsl_, ln in c.t.calls:
                if ln == hq[1].lineno and e[0] == 'call':
                    conds = [(c.norm(fr[1]), fr[2]) for fr in gen if fr[0] == 'pyif']
        else:
            for cond, gen, ln in c.t.conds:
                if ln == n.lineno:
                    for x in ir.walk(c.norm(cond)):
                        if x[0] == 'call' and x[1] == c.parse("self._namespace.is_available"):
                            q = x
                            conds = [(c.norm(fr[1]), fr[2]) for fr in gen if fr[0] == 'pyif']
        if q is None or not conds:
            return None
        parts.append((q, conds))
    (qa, ca), (qb, cb) = parts
    if len(ca) != len(cb) or ca[:-1] != cb[:-1] or ca[-1][0] != cb[-1][0] or ca[-1][1] == cb[-1][1] or qa[1] != qb[1] or qa[3] != qb[3]:
        return None

    def as_seq(args):
        if len(args) == 1 and args[0][0] == 'star':
            return args[0][1]
        if any(a[0] == 'star' for a in args):
            return None
        return ('tuple', tuple(args))
    sa, sb = as_seq(qa[2]), as_seq(qb[2])
    if sa is None or sb is None:
        return None
    cond = ca[-1][0]
    t_, f_ = (sa, sb) if ca[-1][1] else (sb, sa)
    return ('call', qa[1], (('star', ('phi', cond, t_, f_)),), qa[3])


def namespace_sites(rep, idx):
    for spec, obj in (("MemoryMap.add_resource", "resource"), ("MemoryMap.add_window", "window")):
        c = get_fn(idx, spec)
        site = c.fi.site
        rep.analysed(site)
        fg, queries = query_of(rep, idx, c)
        g = fg.g
        two_arms = None
        if len(queries) == 2:
            # one query per arm of a generation-time choice (`if name is None: check(names()) else: check((name,))`)
            two_arms = merged_query(c, fg, queries)
            if two_arms is None:
                rep.unk("C18.1", site, "availability query before the namespace is touched",
                        "two is_available() tests that are not the two arms of one choice")
                continue
        elif len(queries) != 1:
            rep.bad("C18.1", site, "availability query before the namespace is touched", f"found {len(queries)} is_available() tests")
            continue
        qn, qcall, qraises = queries[0]
        qnodes = [x[0] for x in queries]
        rep.check(all(x[2] for x in queries), "C18.1", site, "an unavailable name makes the call raise", "the failing edge of the is_available() test does not raise")
        # symbolic arguments of the query (through the walker: local aliases resolved)
        # the call sits in an `if` test, which the walker records as a generation-time condition
        q = two_arms
        if q is None:
            for cond, gen, ln in c.t.conds:
                for x in ir.walk(c.norm(cond)):
                    if x[0] == 'call' and x[1] == c.parse("self._namespace.is_available"):
                        q = x
        if q is None and getattr(c, "_helper_query", None) is not None:
            q = helper_query(c, *c._helper_query)
        if q is None:
            rep.unk("C18.1", site, "availability query arguments", "cannot recover the query symbolically")
            continue
        muts = ns_calls(c, "assign") + ns_calls(c, "extend")
        if not muts:
            rep.bad("C18.1", site, "namespace update", "the accepted name is never recorded in the namespace: later conflicts would go unnoticed")
            continue
        dom = g.dominators()
        for call, conds, ln in muts:
            kind = call[1][2]
            what = f"self._namespace.{kind}(...) at line {ln}"
            nodes = [n.id for n in g.nodes if n.kind == "stmt" and n.lineno == ln]
            dominated = bool(nodes) and all(any(qx.id in dom[x] for qx in qnodes) for x in nodes)
            if not dominated and nodes and len(qnodes) > 1:
                # the queries dominate collectively: without passing one of them the update cannot be reached
                qids = {qx.id for qx in qnodes}
                seen_, work_ = set(), [g.entry.id]
                while work_:
                    y = work_.pop()
                    if y in seen_ or y in qids:
                        continue
                    seen_.add(y)
                    work_.extend(s_ for s_, lab_ in g.succ[y])
                dominated = not any(x in seen_ for x in nodes)
            rep.check(dominated, "C18.1", site, f"{what} is preceded by the availability query on every path",
                      "namespace is updated on a path that skips the conflict check")
            qa = []
            for a in q[2]:
                a = specialise(a, conds)
                if a[0] == 'star' and a[1][0] in ('tuple', 'list'):
                    qa.extend(a[1][1])
                else:
                    qa.append(a)
            qa = tuple(qa)
            if kind == "assign":
                nm = specialise(call[2][0], conds)
                ok = qa == (nm,)
                rep.check(ok, "C18.1", site, f"{what}: the name assigned is the name that was queried",
                          f"assigned {ir.show(nm)[:80]}; queried {[ir.show(a)[:80] for a in qa]}")
                # C18.2 canonical form
                canon = nm[0] == 'call' and ir.show(nm[1]).endswith("MemoryMap.Name") or nm[0] == 'call' and ir.show(nm[1]) == "Name"
                rep.check(canon, "C18.2", site, f"{what}: the name is canonicalised with MemoryMap.Name(...) before it is queried and assigned",
                          f"name expression is {ir.show(nm)[:80]}")
                rep.check(call[2][1] == ('name', obj), "C18.1", site, f"{what}: the {obj} itself is recorded", f"recorded {ir.show(call[2][1])}",
                          nontrivial=False)
            else:
                other = specialise(call[2][0], conds)
                want_q = (('star', ('call', ('attr', other, 'names'), (), ())),)
                rep.check(qa == want_q, "C18.1", site, f"{what}: the names absorbed are exactly the names that were queried",
                          f"extends with {ir.show(other)}; queried {[ir.show(a)[:80] for a in qa]}")
                rep.check(other == c.parse(f"{obj}._namespace"), "C18.1", site, f"{what}: the anonymous window's own namespace is absorbed",
                          f"extends with {ir.show(other)}", nontrivial=False)
        # must-call after the insertion, split by whether the window is named
        ins = [n.id for n in g.nodes if n.kind == "stmt" and "_ranges.insert" in fg.text(n.id)]
        upd = [n.id for n in g.nodes if n.kind == "stmt" and ("_namespace.assign(" in fg.text(n.id) or "_namespace.extend(" in fg.text(n.id))]
        pdom = g.postdominators([g.exit.id])
        seen = set()
        work = [s for i in ins for s, lab in g.succ[i]]
        while work:
            x = work.pop()
            if x in seen or x in upd:
                continue
            seen.add(x)
            work.extend(s for s, lab in g.succ[x])
        after_ok = bool(ins) and g.exit.id not in seen
        if not after_ok and ins and upd:
            # the name may be recorded before the range is inserted: then every path to the insertion passed a recording statement
            dom = g.dominators()
            # for the named / anonymous split both recording statements sit in the two arms of one `if`: the arms' common test node
            # dominates; accept when every path from the entry to the insertion goes through some recording statement
            seen2, work2 = set(), [g.entry.id]
            reach_ins = False
            while work2:
                x = work2.pop()
                if x in seen2 or x in upd:
                    continue
                seen2.add(x)
                if x in ins:
                    reach_ins = True
                work2.extend(s_ for s_, lab in g.succ[x])
            after_ok = not reach_ins
        rep.check(after_ok, "C18.1", site, "every path that inserts the item also records its name(s)",
                  "some path inserts without updating the namespace")
        if spec.endswith("add_window"):
            ext = ns_calls(c, "extend")
            asg = ns_calls(c, "assign")
            none_k = cond_key(c.parse("name is None"))

            def side(conds):
                for cd, p in conds:
                    k, pol = cond_key(cd)
                    if k == none_k[0]:
                        return (p == pol) == none_k[1]
                return None
            ok = len(ext) == 1 and len(asg) == 1 and side(ext[0][1]) is True and side(asg[0][1]) is False
            rep.check(ok, "C18.1", site, "anonymous window => its names are absorbed; named window => its name is assigned",
                      f"extend under {[ir.show(x) for x, p in ext[0][1]] if ext else None}, assign under {[ir.show(x) for x, p in asg[0][1]] if asg else None}")


def name_class(rep, idx):
    fi = idx.find_func("MemoryMap.Name.__new__")
    site = fi.site
    rep.analysed(site)
    from .common import check_refusal
    c = get_fn(idx, fi)
    raises = {e_ for e_, g_, l_ in c.t.raises}
    rep.check(len(c.t.raises) >= 2 and raises == {"TypeError"}, "C18.2", site, "Name(...) refuses malformed names with TypeError",
              f"{len(c.t.raises)} raise(s) of {sorted(raises)}")
    # the value the parts are taken from: the argument, with a single string wrapped into a 1-tuple
    whole = c.norm(('phi', c.parse("isinstance(name, str)"), ('tuple', (('name', 'name'),)), ('name', 'name')))
    loops = [L for L in c.t.loops.values() if c.norm(L.iter) == whole or (L.seq is not None and c.norm(L.seq) == whole)]
    if len(loops) != 1:
        rep.unk("C18.2", site, "parts are non-empty strings or non-negative integers", f"found {len(loops)} loops over the parts of the name")
    else:
        L = loops[0]
        part = ('item', L.id, ()) if L.kind == 'gen' else c.norm(('sub', L.seq, ('idx', L.id))) if L.seq is not None else ('item', L.id, ())
        cands = [part, ('item', L.id, ()), c.norm(('sub', whole, ('idx', L.id)))]
        done = False
        for p_ in cands:
            from .common import refuses
            ok, detail = refuses(c, "not ((isinstance(part, str) and part) or (isinstance(part, int) and part >= 0))", "TypeError", {"part": p_})
            if ok:
                rep.ok("C18.2", site, "parts are non-empty strings or non-negative integers", detail)
                done = True
                break
        if not done:
            check_refusal(rep, "C18.2", c, "parts are non-empty strings or non-negative integers",
                          "not ((isinstance(part, str) and part) or (isinstance(part, int) and part >= 0))", "TypeError", {"part": part})
    check_refusal(rep, "C18.2", c, "a name is a non-empty tuple", "not isinstance(N, tuple) or len(N) == 0", "TypeError", {"N": whole})
    rets = [c.norm(v) for v, g_, l_ in c.t.returns]
    ok = len(rets) == 1 and rets[0][0] == 'call' and rets[0][1] == c.parse("tuple.__new__") and len(rets[0][2]) == 2 and \
        rets[0][2][1] == whole
    wrong = None
    if len(rets) == 1 and rets[0][0] == 'call' and len(rets[0][2]) == 2 and rets[0][2][1] != whole and \
            any(x[0] == 'call' and x[1] in (('name', 'str'), ('name', 'int'), ('name', 'repr')) for x in ir.walk(rets[0][2][1])):
        wrong = "the parts are converted on the way in: '0' and 0 (or 1 and '1') become the same name"
    rep.form(ok, "C18.2", site, "a Name is the tuple of its parts, unconverted (so '0' and 0 stay distinct)",
             f"returns {[ir.show(r)[:100] for r in rets]}", wrong=wrong)


def own_walk(fn_node):
    """ast.walk that does not descend into nested function definitions / lambdas."""
    stack = list(ast.iter_child_nodes(fn_node))
    while stack:
        n = stack.pop()
        yield n
        if isinstance(n, (ast.FunctionDef, ast.AsyncFunctionDef, ast.Lambda)):
            continue
        stack.extend(ast.iter_child_nodes(n))


def is_available(rep, idx):
    fi = idx.find_func("_Namespace.is_available")
    site = fi.site
    rep.analysed(site)
    parents = {}
    for n in ast.walk(fi.node):
        for ch in ast.iter_child_nodes(n):
            parents[ch] = n

    def ancestors(n):
        while n in parents:
            n = parents[n]
            yield n
    # ---- C18.3 taint: str() only in sort keys and messages ---------------------------------------------------
    nstr = 0
    bad = []
    # local functions / lambdas that are only ever used as a sort key
    key_funcs = {k.value.id for n in ast.walk(fi.node) if isinstance(n, ast.Call) for k in n.keywords
                 if k.arg == "key" and isinstance(k.value, ast.Name)}
    other_uses = {n.id for n in ast.walk(fi.node) if isinstance(n, ast.Name) and isinstance(n.ctx, ast.Load) and n.id in key_funcs and
                  not isinstance(parents.get(n), ast.keyword)}
    key_funcs -= other_uses
    for n in ast.walk(fi.node):
        if isinstance(n, ast.Call) and isinstance(n.func, ast.Name) and n.func.id in ("str", "repr"):
            nstr += 1
            anc = list(ancestors(n))
            in_key = any(isinstance(a, ast.keyword) and a.arg == "key" for a in anc) or \
                any(isinstance(a, ast.FunctionDef) and a.name in key_funcs for a in anc)
            in_msg = any(isinstance(a, ast.JoinedStr) for a in anc) or \
                any(isinstance(a, ast.Call) and isinstance(a.func, ast.Attribute) and a.func.attr == "append" for a in anc)
            in_cmp = any(isinstance(a, ast.Compare) for a in anc) and not in_key
            if in_cmp or not (in_key or in_msg):
                bad.append(n)
    if bad:
        for n in bad:
            encl = next((a for a in ancestors(n) if isinstance(a, (ast.Compare, ast.stmt))), n)
            rep.bad("C18.3", site, f"{ast.unparse(n)} in `{ast.unparse(encl).splitlines()[0][:80]}`", "a string conversion reaches the comparison that decides a conflict: "
                    "the string '0' and the integer 0 would be confused")
    else:
        rep.ok("C18.3", site, "string conversions flow only into sort keys and messages", f"{nstr} str()/repr() call(s) checked")
    # ---- C18.4 monotone verdict ---------------------------------------------------------------------------------
    rets = [n for n in own_walk(fi.node) if isinstance(n, ast.Return) and n.value is not None]
    flag = None
    start, later = False, True
    if len(rets) == 1 and isinstance(rets[0].value, ast.UnaryOp) and isinstance(rets[0].value.op, ast.Not) and \
            isinstance(rets[0].value.operand, ast.Name):
        flag = rets[0].value.operand.id
    elif len(rets) == 1 and isinstance(rets[0].value, ast.Name):
        flag = rets[0].value.id                         # an availability flag: starts True, only ever cleared
        start, later = True, False
    extra_unk = None
    if flag is None and len(rets) > 1:
        # one final verdict plus early returns: an early `return True` inside a loop answers before the remaining names were compared
        # (named); an early exit before the search (a fast path decided by an index or a helper) or an early `return False` is a
        # different algorithm whose completeness is not re-derived here
        final = [r for r in rets if not any(isinstance(a, (ast.For, ast.While, ast.If)) for a in ancestors(r))]
        early = [r for r in rets if r not in final]
        if len(final) == 1 and early:
            fv = final[0].value
            if isinstance(fv, ast.UnaryOp) and isinstance(fv.op, ast.Not) and isinstance(fv.operand, ast.Name):
                flag = fv.operand.id
            elif isinstance(fv, ast.Name):
                flag = fv.id
                start, later = True, False
            in_loop_true = [r for r in early if any(isinstance(a, (ast.For, ast.While)) for a in ancestors(r)) and
                            isinstance(r.value, ast.Constant) and r.value.value is True]
            if flag is not None and in_loop_true:
                rep.bad("C18.4", site, "no name is declared available before every queried name was compared with every candidate",
                        f"`return True` at line {in_loop_true[0].lineno} inside the search loop: the names and candidates not yet visited are "
                        "never compared, so a conflicting name among them is accepted", line=in_loop_true[0].lineno)
                flag = None
                extra_unk = False
            elif flag is not None:
                extra_unk = (f"{len(early)} early return(s) beside the final verdict ({', '.join('`return ' + ast.unparse(r.value)[:30] + '`' for r in early)}): "
                             "a fast path or early exit whose agreement with the full search is not decided")
    if extra_unk:
        rep.unk("C18.4", site, "the verdict is `not <conflict flag>` (or an availability flag) and there is no early return", extra_unk)
    elif extra_unk is None:
        rep.check(flag is not None, "C18.4", site, "the verdict is `not <conflict flag>` (or an availability flag) and there is no early return",
                  f"returns: {[ast.unparse(r.value) for r in rets]}")
    if flag:
        stores = [n for n in own_walk(fi.node) if isinstance(n, (ast.Assign, ast.AugAssign)) and
                  any(isinstance(t, ast.Name) and t.id == flag for t in (n.targets if isinstance(n, ast.Assign) else [n.target]))]
        init = [s for s in stores if not any(isinstance(a, (ast.For, ast.While)) for a in ancestors(s))]
        inner = [s for s in stores if s not in init]
        ok_init = len(init) == 1 and isinstance(init[0], ast.Assign) and isinstance(init[0].value, ast.Constant) and init[0].value.value is start
        rep.check(ok_init, "C18.4", site, f"the verdict flag starts as {start}, once, before the loops", f"{len(init)} initialisation(s)")
        ok_inner = bool(inner) and all(isinstance(s, ast.Assign) and isinstance(s.value, ast.Constant) and s.value.value is later for s in inner)
        rep.check(ok_inner, "C18.4", site, f"inside the loops the flag is only ever set to {later} (a conflict found for one name is never forgotten)",
                  f"assignments in loops: {[ast.unparse(s) for s in inner]}")
    prefix_idiom(rep, fi, flag, idx, later)


def names_nonempty(idx):
    """MemoryMap.Name.__new__ raises on an empty tuple (a test of len(name) == 0 / not name on a raising branch)."""
    fi = idx.find_func("MemoryMap.Name.__new__")
    for n in ast.walk(fi.node):
        if isinstance(n, ast.If) and any(isinstance(s, ast.Raise) for s in n.body):
            t = ir.norm(ir.from_ast(n.test, {}))
            for x in ir.walk(t):
                if x == ir.norm(ir.parse("len(name) == 0")) or x == ir.norm(ir.parse("not name")) or x == ir.norm(ir.parse("len(name) < 1")):
                    return True
    return False


def prefix_idiom(rep, fi, flag, idx=None, later=True):
    site = fi.site
    # innermost loop: enumerate over one of the two names
    loops = [n for n in ast.walk(fi.node) if isinstance(n, ast.For)]
    inner = [l for l in loops if isinstance(l.iter, ast.Call) and ast.unparse(l.iter.func) == "enumerate" and
             not any(isinstance(x, ast.For) for x in ast.walk(l) if x is not l)]
    slice_form = None
    for n in ast.walk(fi.node):
        if isinstance(n, ast.Compare) and len(n.ops) == 1 and isinstance(n.ops[0], ast.Eq) and \
                isinstance(n.left, ast.Subscript) and isinstance(n.comparators[0], ast.Subscript):
            slice_form = n
    if len(inner) != 1:
        # idiom (iii): all(a[i] == b[i] for i in range(min(len(a), len(b))))  -- possibly in a single-return helper (inlined)
        from .common import get_fn
        c = get_fn(idx, fi) if idx is not None else None
        if c is not None:
            for cond, gen, ln in c.t.conds:
                cn = c.norm(cond)
                for x in ir.walk(cn):
                    if x[0] == 'call' and x[1] == ('name', 'all') and len(x[2]) == 1 and x[2][0][0] == 'gen':
                        gexp = x[2][0]
                        if len(gexp[3]) == 1:
                            tgt, it, ifs = gexp[3][0]
                            elt = gexp[2]
                            if it[0] == 'call' and it[1] == ('name', 'range') and len(it[2]) == 2 and it[2][0] == ('const', 0) and not ifs:
                                hi = it[2][1]
                                if hi[0] == 'call' and hi[1] == ('name', 'min') and len(hi[2]) == 2 and \
                                        all(a[0] == 'call' and a[1] == ('name', 'len') for a in hi[2]):
                                    A_, B_ = hi[2][0][2][0], hi[2][1][2][0]
                                    want = ir.norm(('cmp', '==', ('sub', A_, tgt), ('sub', B_, tgt)))
                                    if elt == want:
                                        rep.ok("C18.5", site, "prefix test is all(a[i] == b[i] for i in range(min(len(a), len(b))))", ir.show(x)[:120])
                                        rep.ok("C18.5", site, "comparison length is the shorter name", ir.show(hi), nontrivial=False)
                                        return
        # idiom (iv): all(p == q for p, q in zip(a, b)) -- zip stops at the shorter name; an empty name would conflict with
        # everything, so the idiom is only equivalent because Name(...) refuses empty names
        if c is not None:
            for cond, gen, ln in c.t.conds:
                cn = c.norm(cond)
                for x in ir.walk(cn):
                    if not (x[0] == 'call' and x[1] == ('name', 'all') and len(x[2]) == 1 and x[2][0][0] == 'gen' and len(x[2][0][3]) == 1):
                        continue
                    tgt, it, ifs = x[2][0][3][0]
                    elt = x[2][0][2]
                    if it[0] == 'call' and it[1] == ('name', 'zip') and len(it[2]) == 2 and it[2][0] != it[2][1] and not ifs and \
                            tgt[0] == 'tuple' and len(tgt[1]) == 2 and elt == ir.norm(('cmp', '==', tgt[1][0], tgt[1][1])):
                        nonempty = names_nonempty(idx)
                        if nonempty:
                            rep.ok("C18.5", site, "prefix test is all(p == q for p, q in zip(a, b)); names are never empty (Name refuses len 0)",
                                   ir.show(x)[:120])
                            rep.ok("C18.5", site, "comparison length is the shorter name", "zip() stops at the shorter operand", nontrivial=False)
                        else:
                            rep.bad("C18.5", site, "prefix test all(... zip(a, b))", "an empty name conflicts with every name under this test, and "
                                    "MemoryMap.Name does not refuse empty tuples")
                        return
        if c is not None:
            for cond, gen, ln in c.t.conds:
                cn = c.norm(cond)
                subs = [x for x in ir.walk(cn) if x[0] == 'sub' and x[2][0] == 'slice']
                if len(subs) == 2 and subs[0][2] == subs[1][2] and subs[0][1] != subs[1][1] and subs[0][2][1] == ('const', 0):
                    A_, B_, K_ = subs[0][1], subs[1][1], subs[0][2][2]
                    wantk = {ir.norm(ir.parse("min(len(a), len(b))", {"a": A_, "b": B_})), ir.norm(ir.parse("min(len(a), len(b))", {"a": B_, "b": A_}))}
                    if K_ in wantk and any(x[0] == 'cmp' and x[1] in ('==', '!=') for x in ir.walk(cn)):
                        rep.ok("C18.5", site, "prefix test compares a[:k] with b[:k], k = min(len(a), len(b))", ir.show(cn)[:120])
                        rep.ok("C18.5", site, "comparison length is the shorter name", ir.show(K_), nontrivial=False)
                        return
                    if K_[0] == 'call' and K_[1] == ('name', 'max'):
                        rep.bad("C18.5", site, f"prefix test `{ir.show(cn)[:80]}`", "max instead of min: slices of different length never compare equal, "
                                "so a proper prefix is never reported")
                        return
        if slice_form is not None:
            a, b = slice_form.left, slice_form.comparators[0]
            ka = ir.norm(ir.from_ast(a.slice, {}))
            kb = ir.norm(ir.from_ast(b.slice, {}))
            A, B = ast.unparse(a.value), ast.unparse(b.value)
            want = ir.norm(ir.parse(f"slice(None, min(len({A}), len({B})))"))
            want2 = ir.norm(ir.parse(f"slice(None, min(len({B}), len({A})))"))
            if ka == kb and ka[0] == 'slice' and ka[2] in (want[2], want2[2]):
                rep.ok("C18.5", site, "prefix test is a[:k] == b[:k] with k = min(len(a), len(b))", ast.unparse(slice_form))
                rep.ok("C18.5", site, "comparison length is the shorter name", ast.unparse(slice_form), nontrivial=False)
                return
        rep.unk("C18.5", site, "prefix comparison", "neither the index-walk idiom nor the slice idiom was recognised")
        return
    L = inner[0]
    if not (isinstance(L.target, ast.Tuple) and len(L.target.elts) == 2 and all(isinstance(e, ast.Name) for e in L.target.elts)):
        rep.unk("C18.5", site, "prefix comparison", "unexpected loop target")
        return
    iname, pname = L.target.elts[0].id, L.target.elts[1].id
    A = ast.unparse(L.iter.args[0])
    ifs = [s for s in L.body if isinstance(s, ast.If)]
    if len(ifs) != 2:
        rep.unk("C18.5", site, "prefix comparison", f"expected two tests in the part loop, found {len(ifs)}")
        return
    first, second = ifs
    t1 = ir.from_ast(first.test, {})
    # part != other[idx]  -> leave without conflict
    B = None
    pos, pol = ir.split_neg(t1)
    if pos[0] == 'cmp' and pos[1] in ('!=', '=='):
        ops = [pos[2], pos[3]]
        for o in ops:
            if o[0] == 'sub' and o[2] == ('name', iname):
                B = ir.show(o[1])
    unequal = pos[0] == 'cmp' and ((pos[1] == '!=') == pol) and B is not None and \
        {ir.show(pos[2]), ir.show(pos[3])} == {pname, f"{B}[{iname}]"}
    ends_break = bool(first.body) and isinstance(first.body[-1], ast.Break)
    sets_flag = any(isinstance(s, ast.Assign) and any(isinstance(t, ast.Name) and t.id == flag for t in s.targets) for s in ast.walk(first))
    rep.check(unequal and ends_break and not sets_flag, "C18.5", site,
              "at the first unequal pair of parts the names are declared unrelated (no conflict)",
              f"first test is `{ast.unparse(first.test)}`; it must compare the raw parts for inequality and leave the loop without a conflict")
    if B is None:
        return
    t2 = ir.norm(ir.from_ast(second.test, {}))
    want = ir.norm(ir.parse(f"{iname} == min(len({A}), len({B})) - 1"))
    sets = any(isinstance(s, ast.Assign) and any(isinstance(t, ast.Name) and t.id == flag for t in s.targets) and
               isinstance(s.value, ast.Constant) and s.value.value is later for s in ast.walk(second))
    if t2 == want and sets:
        rep.ok("C18.5", site, "conflict is declared when the index reaches min(len(a), len(b)) - 1 with all parts equal so far",
               ast.unparse(second.test))
        return
    named_wrong = [
        (f"{iname} == max(len({A}), len({B})) - 1", "max instead of min: a proper prefix is never reported (and the index runs past the shorter name)"),
        (f"{iname} == min(len({A}), len({B}))", "missing - 1: the conflict index is never reached"),
        (f"{iname} == len({A}) - 1", "only the queried name's length is considered: a reserved name that is a proper prefix of the queried name is missed"),
        (f"{iname} == len({B}) - 1", "only the reserved name's length is considered: a queried name that is a proper prefix of a reserved name is missed"),
    ]
    for text, why in named_wrong:
        if t2 == ir.norm(ir.parse(text)):
            rep.bad("C18.5", site, f"conflict test `{ast.unparse(second.test)}`", why)
            return
    for x in ir.walk(t2):
        if x[0] == 'cmp' and x[1] == '==' and 'len(' in ir.show(x) and iname not in ir.show(x):
            rep.bad("C18.5", site, f"conflict test `{ast.unparse(second.test)}`", "the conflict is restricted by a comparison of the two lengths: "
                    "prefix conflicts between names of different length are missed")
            return
    rep.unk("C18.5", site, f"conflict test `{ast.unparse(second.test)}`", "not one of the recognised shapes")


def search_domain(rep, idx):
    """The queried name is compared with *every* assigned name.  A search that narrows the candidates by their position in a sorted
    list (bisect, an index window, neighbours only) is only complete when the order agrees with the prefix relation -- and the
    only order available for names that mix strings and integers goes through str(part), under which 0 and '0' tie, so the real
    prefix / extension of a name need not be adjacent to it."""
    cls = idx.find_class("_Namespace")
    fi = cls.method("is_available")
    site = fi.site
    closure, todo = [], [fi]
    while todo:
        g = todo.pop()
        if g in closure:
            continue
        closure.append(g)
        for n in ast.walk(g.node):
            if isinstance(n, ast.Call) and isinstance(n.func, ast.Attribute) and isinstance(n.func.value, ast.Name) and n.func.value.id in ("self", "cls"):
                h = cls.method(n.func.attr)
                if h is not None and h.name not in ("assign", "extend"):
                    todo.append(h)
    positional = []
    for g in closure:
        for n in ast.walk(g.node):
            if isinstance(n, ast.Call) and ast.unparse(n.func).startswith("bisect"):
                positional.append((g, n, "bisection"))
            if isinstance(n, ast.Call) and isinstance(n.func, ast.Attribute) and n.func.attr == "index" and n.args:
                positional.append((g, n, "list.index()"))
    # an early `break` out of the loop over the candidates: the names after it are never compared
    for g in closure:
        binds = {}
        for n in ast.walk(g.node):
            if isinstance(n, ast.Assign) and len(n.targets) == 1 and isinstance(n.targets[0], ast.Name):
                binds.setdefault(n.targets[0].id, []).append(n.value)

        def mentions_store(e, depth=0):
            for x in ast.walk(e):
                if isinstance(x, ast.Attribute) and isinstance(x.value, ast.Name) and x.value.id == "self" and cls.method(x.attr) is None:
                    return True
                if isinstance(x, ast.Name) and x.id in binds and depth < 2 and any(mentions_store(v, depth + 1) for v in binds[x.id]):
                    return True
            return False
        par = {}
        for n in ast.walk(g.node):
            for ch in ast.iter_child_nodes(n):
                par[ch] = n
        for loop in [n for n in ast.walk(g.node) if isinstance(n, ast.For) and mentions_store(n.iter)]:
            for b in [n for n in ast.walk(loop) if isinstance(n, ast.Break)]:
                x = b
                while x in par and not isinstance(par[x], (ast.For, ast.While)):
                    x = par[x]
                if par.get(x) is loop:
                    positional.append((g, b, "an early `break` out of the scan of the (sorted) candidates"))
    str_keys = [n for fs in cls.methods.values() for f in fs for n in ast.walk(f.node)
                if isinstance(n, (ast.GeneratorExp, ast.ListComp)) and isinstance(n.elt, ast.Call) and isinstance(n.elt.func, ast.Name) and
                n.elt.func.id == "str"]
    what = "every assigned name is a candidate of the conflict search"
    if not positional:
        rep.ok("C18.8", site, what, f"no positional narrowing (bisect / index) in is_available() and the {len(closure) - 1} helper(s) it calls")
        return
    g, n, how = positional[0]
    if str_keys:
        rep.bad("C18.8", g.site, what, f"the candidates are narrowed by {how} (`{ast.unparse(n)[:60]}`) in a list ordered by str(part): an integer part "
                "and the string with the same digits tie under that order, so the assigned prefix or extension of a name need not be next to "
                "it, and a conflicting name is accepted", line=n.lineno)
    else:
        rep.unk("C18.8", g.site, what, f"the candidates are narrowed by {how}; whether the order used agrees with the prefix relation is not decided")


def name_ordering(rep, idx):
    """Names are tuples whose parts may be strings *and* integers ('0' vs 0): Python cannot order such tuples (int < str raises
    TypeError).  Wherever names are sorted (sorted / .sort / min / max over a collection of names) the key must map every
    part through str(); sorting the raw name -- or a key that contains the raw name -- fails as soon as two names of equal
    length differ in the type of one part."""
    n = 0
    for cname in ("_Namespace", "MemoryMap"):
        cls = idx.find_class(cname)
        for fs in cls.methods.values():
            for f in fs:
                for x in ast.walk(f.node):
                    if not isinstance(x, ast.Call):
                        continue
                    fn = x.func.id if isinstance(x.func, ast.Name) else (x.func.attr if isinstance(x.func, ast.Attribute) else None)
                    if fn not in ("sorted", "sort", "min", "max") or (fn in ("min", "max") and len(x.args) != 1):
                        continue
                    arg = x.args[0] if x.args else (x.func.value if fn == "sort" else None)
                    if arg is None:
                        continue
                    src = ast.unparse(arg)
                    if not any(k in src for k in ("_assignments", "names", "name")):
                        continue                                    # not a collection of names
                    if fn in ("min", "max") and not isinstance(arg, (ast.Name, ast.Attribute, ast.Call, ast.BinOp)):
                        continue
                    n += 1
                    what = f"{fn}({src[:50]}...) orders names"
                    key = next((k.value for k in x.keywords if k.arg == "key"), None)
                    if key is None:
                        rep.bad("C18.7", f.site, what, "no key: tuples with an integer part in one name and a string part in another cannot be "
                                "ordered (TypeError), so a legal name is refused with an internal error", line=x.lineno)
                        continue
                    if isinstance(key, ast.Name):
                        # a named key function: module-level or local def with one parameter and a single return
                        defs = [y for y in ast.walk(f.module.tree) if isinstance(y, ast.FunctionDef) and y.name == key.id]
                        if len(defs) == 1 and len(defs[0].args.args) == 1:
                            body = [s for s in defs[0].body if not (isinstance(s, ast.Expr) and isinstance(s.value, ast.Constant))]
                            if len(body) == 1 and isinstance(body[0], ast.Return) and body[0].value is not None:
                                key = ast.Lambda(args=defs[0].args, body=body[0].value)
                    if isinstance(key, ast.Lambda) and len(key.args.args) == 1:
                        p_ = key.args.args[0].arg
                        raw = [y for y in ast.walk(key.body) if isinstance(y, ast.Name) and y.id == p_]
                        # every use of the parameter must be as the iterable of a comprehension whose element is str()/repr()-mapped,
                        # or inside len()
                        safe = True
                        par = {}
                        for y in ast.walk(key.body):
                            for ch in ast.iter_child_nodes(y):
                                par[ch] = y
                        for y in raw:
                            q = par.get(y)
                            if isinstance(q, ast.Call) and isinstance(q.func, ast.Name) and q.func.id == "len":
                                continue
                            if isinstance(q, ast.comprehension) and q.iter is y:
                                comp = par.get(q)
                                elt = getattr(comp, "elt", None)
                                if isinstance(elt, ast.Call) and isinstance(elt.func, ast.Name) and elt.func.id in ("str", "repr"):
                                    continue
                            safe = False
                        if safe:
                            rep.ok("C18.7", f.site, what, "the key maps every part through str()")
                        else:
                            rep.bad("C18.7", f.site, what, f"the key `{ast.unparse(key)[:60]}` contains the raw name: two names of equal length "
                                    "that differ in the type of a part (0 vs '0', an index vs a word) make the comparison raise TypeError",
                                    line=x.lineno)
                    else:
                        rep.unk("C18.7", f.site, what, f"key `{ast.unparse(key)[:50]}` is not a one-argument lambda; whether it is type-safe is not decided")
    rep.ok("C18.7", "-", "sorting of names was enumerated", f"{n} site(s)", nontrivial=False)


_MUTATORS = ("update", "add", "append", "extend", "insert", "setdefault", "pop", "popitem", "clear", "remove", "discard", "sort",
             "difference_update", "intersection_update", "symmetric_difference_update", "appendleft")


def _attr_writes(fn, recv="self"):
    """{attribute: first line} of the receiver's attributes a method rebinds or mutates in place."""
    out = {}

    def root(e):
        while isinstance(e, (ast.Subscript,)):
            e = e.value
        if isinstance(e, ast.Attribute) and isinstance(e.value, ast.Name) and e.value.id == recv:
            return e.attr
        return None
    for n in ast.walk(fn):
        tgts = []
        if isinstance(n, ast.Assign):
            tgts = n.targets
        elif isinstance(n, (ast.AugAssign, ast.AnnAssign)):
            tgts = [n.target]
        elif isinstance(n, ast.Delete):
            tgts = n.targets
        elif isinstance(n, ast.Call) and isinstance(n.func, ast.Attribute) and n.func.attr in _MUTATORS:
            tgts = [n.func.value]
        for t in tgts:
            for x in (t.elts if isinstance(t, (ast.Tuple, ast.List)) else [t]):
                a = root(x)
                if a is not None:
                    out.setdefault(a, n.lineno)
    return out


def index_coherence(rep, idx):
    """is_available() decides from the namespace's stored state.  (a) When it reads more than one attribute -- the names and an
    index over them that narrows the search -- every method that adds names must maintain all of them: a writer that updates
    the names but not the index (while a sibling writer maintains both) leaves names the search never visits.  (b) The
    collection the search iterates contains every assigned name unconditionally; a domain chosen by a condition or filtered is
    only complete if the condition is implied by the index, which is not re-derived here."""
    cls = idx.find_class("_Namespace")
    fi = cls.method("is_available")
    closure, todo = [], [fi]
    while todo:
        g = todo.pop()
        if g in closure:
            continue
        closure.append(g)
        for n in ast.walk(g.node):
            if isinstance(n, ast.Call) and isinstance(n.func, ast.Attribute) and isinstance(n.func.value, ast.Name) and n.func.value.id == "self":
                h = cls.method(n.func.attr)
                if h is not None and h.name not in ("assign", "extend"):
                    todo.append(h)
    reads = set()
    for g in closure:
        for n in ast.walk(g.node):
            if isinstance(n, ast.Attribute) and isinstance(n.value, ast.Name) and n.value.id == "self" and isinstance(n.ctx, ast.Load) and \
                    cls.method(n.attr) is None:
                reads.add(n.attr)
    writers = {}
    for fs in cls.methods.values():
        for f in fs:
            if f.name == "__init__" or f in closure:
                continue
            w = {a: ln for a, ln in _attr_writes(f.node).items() if a in reads}
            if w:
                writers[f] = w
    what = "every method that adds names maintains all the state is_available() searches"
    union = set()
    for w in writers.values():
        union |= set(w)
    incoherent = [(f, sorted(union - set(w))) for f, w in writers.items() if union - set(w)]
    if incoherent:
        for f, missing in incoherent:
            full = next((g for g, w in writers.items() if set(w) == union), None)
            rep.bad("C18.9", f.site, what,
                    f"{f.qual} updates {sorted('self.' + a for a in writers[f])} but not {['self.' + a for a in missing]}, which is_available() reads"
                    + (f" and {full.qual} maintains" if full is not None else "") + ": names that enter through this method are not "
                    "found by the search, so an equal name, a prefix or an extension of one of them is accepted",
                    line=min(writers[f].values()))
    else:
        rep.ok("C18.9", fi.site, what, f"is_available() reads {sorted(reads)}; writers: " +
               ", ".join(f"{f.qual} -> {sorted(w)}" for f, w in sorted(writers.items(), key=lambda kv: kv[0].qual)))
    # (b) the iterated domain
    what = "the conflict search iterates every assigned name"
    found = False
    for g in closure:
        binds = {}
        for n in ast.walk(g.node):
            if isinstance(n, ast.Assign) and len(n.targets) == 1 and isinstance(n.targets[0], ast.Name):
                binds.setdefault(n.targets[0].id, []).append(n.value)
        for loop in [n for n in ast.walk(g.node) if isinstance(n, (ast.For, ast.comprehension))]:
            seen, narrowed, uses = set(), [], False
            stack = [loop.iter]
            while stack:
                e = stack.pop()
                for x in ast.walk(e):
                    if isinstance(x, ast.Attribute) and isinstance(x.value, ast.Name) and x.value.id == "self" and x.attr in reads and \
                            cls.method(x.attr) is None:
                        uses = True
                    if isinstance(x, ast.IfExp):
                        narrowed.append(f"a choice `{ast.unparse(x)[:70]}`")
                    if isinstance(x, (ast.ListComp, ast.SetComp, ast.GeneratorExp, ast.DictComp)) and any(c_.ifs for c_ in x.generators):
                        narrowed.append(f"a filter `{ast.unparse(x)[:70]}`")
                    if isinstance(x, ast.Call) and isinstance(x.func, ast.Name) and x.func.id in ("filter", "islice", "takewhile", "dropwhile"):
                        narrowed.append(f"`{ast.unparse(x)[:70]}`")
                    if isinstance(x, ast.Subscript) and isinstance(x.slice, ast.Slice):
                        narrowed.append(f"a slice `{ast.unparse(x)[:70]}`")
                    if isinstance(x, ast.Name) and isinstance(x.ctx, ast.Load) and x.id in binds and x.id not in seen:
                        seen.add(x.id)
                        if len(binds[x.id]) > 1:
                            narrowed.append(f"`{x.id}`, which is bound in {len(binds[x.id])} places")
                        stack.extend(binds[x.id])
            if not uses:
                continue
            found = True
            # slices of the *queried* tuple (names[i + 1:]) are not a narrowing of the assigned names
            narrowed = [t for t in narrowed if not (t.startswith("a slice") and "self." not in t)]
            if narrowed:
                rep.unk("C18.9", g.site, what, f"the collection iterated at line {loop.iter.lineno} is narrowed by {narrowed[0]}; whether every "
                        "conflicting assigned name is still among the candidates is not decided")
            else:
                rep.ok("C18.9", g.site, what, f"`{ast.unparse(loop.iter)[:80]}` contains the stored names unconditionally")
    if not found:
        rep.unk("C18.9", fi.site, what, "no loop over the stored names was found in is_available() or its helpers")
