"""C15 — Wishbone SRAM: one-cycle single acknowledge, gated write enable, geometry."""
import ast

from ..core import dl, ir
from .common import get_ctx, get_ctor, require_supported, check_dl, kwarg

EXPLANATION = ("WishboneSRAM.elaborate template: acknowledge next-state list, write-enable decision list under the "
               "generation-time `writable` flag, port wiring identified by origin call (read_port / write_port), and the "
               "geometry expressions of the constructor")


def port_roles(idx, c, ctor):
    """IRs that denote the memory's read / write port objects (origin call, wherever it is made)."""
    roles = {"read_port": [], "write_port": []}
    calls = {"read_port": [], "write_port": []}

    def scan(e, into=True):
        for x in ir.walk(e):
            if x[0] == 'call' and x[1][0] == 'attr' and x[1][2] in roles:
                nx = c.norm(x)
                if nx not in roles[x[1][2]]:
                    roles[x[1][2]].append(nx)
                    calls[x[1][2]].append(nx)
    for d in c.t.drivers:
        scan(d.target)
        scan(d.value)
    for key, (val, gen, ln) in ctor.stores.items():
        if val[0] == 'phi' and val[3] == ('const', None):
            val = val[2]                        # self._port = <call> if cond else None
        elif val[0] == 'phi' and val[2] == ('const', None):
            val = val[3]
        if val[0] == 'call' and val[1][0] == 'attr' and val[1][2] in roles:
            roles[val[1][2]].append(ir.parse(key))
            calls[val[1][2]].append(val)
    return roles, calls


def run(rep, idx, tier):
    rep.explanation = EXPLANATION
    rep.assume("A2", "A4")
    rep.require("C15.1", 1)
    rep.require("C15.2", 1)
    rep.require("C15.3", 4)
    rep.require("C15.4", 5)
    rep.require("C15.5", 2)
    from . import glue as _glue
    _glue.reset_discipline(rep, "C15.5", idx, ["WishboneSRAM"])
    _glue.iterable_handover(rep, "C15.5", idx, "WishboneSRAM.__init__", "init", "MemoryData", "init")
    _glue.write_once_handles(rep, "C15.5", idx, "WishboneSRAM")
    # the `init` property hands out the memory's own initial-contents object: edits made through it (sram.init[k] = v) must
    # reach the memory, so the getter returns the object itself, not a copy
    sram = idx.find_class("WishboneSRAM")
    getters = [f for f in sram.methods.get("init", []) if f.is_property]
    if getters:
        g = getters[0]
        rets = [n.value for n in ast.walk(g.node) if isinstance(n, ast.Return) and n.value is not None]
        chain_ok = len(rets) == 1 and isinstance(rets[0], ast.Attribute) and rets[0].attr == "init" and \
            ast.unparse(rets[0]).startswith("self._")
        wrong = None
        if len(rets) == 1 and isinstance(rets[0], ast.Call) and isinstance(rets[0].func, ast.Name) and \
                rets[0].func.id in ("list", "tuple", "copy", "deepcopy", "dict") or \
                (len(rets) == 1 and isinstance(rets[0], (ast.List, ast.ListComp, ast.Tuple))):
            wrong = "the getter returns a copy: in-place edits of the initial contents through the property are silently lost"
        setters = [f for f in sram.methods.get("init", []) if f.is_setter]
        if wrong is None and not chain_ok and len(rets) == 1 and isinstance(rets[0], ast.Attribute) and isinstance(rets[0].value, ast.Name) and \
                rets[0].value.id == "self":
            # a cached reference: right only while nobody replaces the object it was taken from
            cache = rets[0].attr
            rebound = any(isinstance(t, ast.Attribute) and t.attr == cache and isinstance(t.value, ast.Name) and t.value.id == "self"
                          for st_ in setters for n in ast.walk(st_.node) if isinstance(n, ast.Assign) for t in n.targets)
            replaces = any(isinstance(t, ast.Attribute) and t.attr == "init" and ast.unparse(t.value).startswith("self._")
                           for st_ in setters for n in ast.walk(st_.node) if isinstance(n, ast.Assign) for t in n.targets)
            if replaces and not rebound:
                wrong = (f"the getter returns `self.{cache}`, a reference taken once in the constructor, while the setter assigns a new image to the "
                         "memory (`MemoryData.init = ...` builds a new object): after `sram.init = image` the getter still hands out the old "
                         "object, and edits made through it never reach the memory")
        rep.form(chain_ok, "C15.5", g.site, "`init` returns the memory's own initial-contents object",
                 f"returns {ast.unparse(rets[0])[:60] if rets else None}", wrong=wrong)
        # the setter replaces the whole image: what the new image does not mention is zero again, not what it was before
        for st_ in setters:
            par = [p_ for p_ in st_.params if p_ != "self"]
            stores = [n for n in ast.walk(st_.node) if isinstance(n, (ast.Assign, ast.AugAssign))]
            whole = [n for n in stores if isinstance(n, ast.Assign) and len(n.targets) == 1 and isinstance(n.targets[0], ast.Attribute) and
                     n.targets[0].attr == "init" and ast.unparse(n.targets[0].value).startswith("self._")]
            partial = [n for n in stores if any(isinstance(t, ast.Subscript) and isinstance(t.value, ast.Attribute) and t.value.attr == "init"
                                               for t in (n.targets if isinstance(n, ast.Assign) else [n.target]))]
            rep.form(len(whole) == 1 and not partial, "C15.5", st_.site, "assigning `init` replaces the whole initial image",
                     f"setter stores: {[ast.unparse(n)[:60] for n in stores]}",
                     wrong=("the setter writes the new values *into* the existing image (a slice / element store): rows the new image does not "
                            "cover keep their old contents instead of reading as zero") if partial else None)
    _glue.param_refusals(rep, "C15.4", idx, only=["WishboneSRAM.__init__"])
    c = get_ctx(idx, "WishboneSRAM.elaborate")
    ctor = get_ctor(idx, "WishboneSRAM")
    rep.analysed(c.fi.site, ctor.fi.site)
    rep.count("drivers", len(c.t.drivers))
    site = c.fi.site
    if not require_supported(rep, "C15.1", c):
        return
    req = "~self.wb_bus.ack & self.wb_bus.cyc & self.wb_bus.stb"
    # the memory whose ports are driven below is part of the design, unconditionally
    mem_subs = [(c.norm(v), gen) for _, v, gen, _ in c.t.submodules]
    mems = {k for k, (v, g, ln) in ctor.stores.items() if v[0] == 'call' and ir.show(v[1]).split(".")[-1] == "Memory"}
    ok_mem = any(ir.show(v) in mems and not gen for v, gen in mem_subs)
    rep.check(ok_mem, "C15.3", site, "the memory is a submodule of the component, unconditionally",
              f"submodules: {[ir.show(v) for v, g in mem_subs]}; memory objects created by the constructor: {sorted(mems)}")

    # C15.1 acknowledge
    ack = c.drivers_of(c.parse("self.wb_bus.ack"))
    if not ack or {d.domain for d in ack} != {"sync"}:
        rep.bad("C15.1", site, "wb_bus.ack register", "ack must be a sync register driven by this component")
    else:
        check_dl(rep, "C15.1", c, "ack' = ack ? 0 : (cyc & stb) ? 1 : hold", ack, dl.HOLD,
                 [("self.wb_bus.ack", "0"), ("self.wb_bus.cyc & self.wb_bus.stb", "1")])

    roles, calls = port_roles(idx, c, ctor)
    rps, wps = roles["read_port"], roles["write_port"]
    import ast as _ast15
    listed = any(isinstance(x, _ast15.Attribute) and x.attr in ("read_ports", "write_ports", "r_ports", "w_ports") for x in _ast15.walk(c.fi.node))
    if len(rps) != 1 and listed:
        rep.unk("C15.3", site, "read port", f"found {len(rps)} read port(s) obtained from <memory>.read_port(); elaborate() takes its ports from the "
                "memory's port lists instead, whose identity with the constructor's ports is not derived")
        return
    if len(rps) != 1:
        rep.bad("C15.3", site, "read port", f"expected one read port obtained from <memory>.read_port(), found {len(rps)}")
        return
    RP = rps[0]
    env = {"RP": RP}
    # the read port is the synchronous one (the default): the read data is registered, i.e. belongs to the address of the request
    # cycle, whatever the initiator drives in the acknowledge cycle.  An asynchronous port follows the *current* address.
    for call in calls["read_port"]:
        dom = next((v for k_, v in call[3] if k_ == "domain"), None)
        if dom is not None and dom != ('const', 'sync'):
            if dom[0] == 'const':
                rep.bad("C15.3", site, "the read port is synchronous (read data belongs to the address of the request cycle)",
                        f"read_port(domain={dom[1]!r}): the read data follows the address of the *current* cycle, so a transfer whose address "
                        "changes in the acknowledge cycle (back-to-back reads) returns the word of the next address")
            else:
                rep.unk("C15.3", site, "the read port is synchronous (read data belongs to the address of the request cycle)",
                        f"read_port(domain={ir.show(dom)[:40]})")
        else:
            rep.ok("C15.3", site, "the read port is synchronous (read data belongs to the address of the request cycle)", "read_port() in the sync domain",
                   nontrivial=False)
    # C15.3 read side
    one(rep, c, "C15.3", "read_port.addr == wb_bus.adr", ('attr', RP, 'addr'), "self.wb_bus.adr", None)
    one(rep, c, "C15.3", "wb_bus.dat_r == read_port.data", c.parse("self.wb_bus.dat_r"), ('attr', RP, 'data'), None)
    # read enable, if driven at all, must be 1 while a read request is presented (ReadPort.en resets to 1)
    ren = c.drivers_of(('attr', RP, 'en'))
    if ren:
        if {d.domain for d in ren} != {"comb"}:
            rep.bad("C15.3", site, "read_port.en", "read enable must be combinational")
        else:
            check_dl(rep, "C15.3", c, "read_port.en == 1 while a read request is presented", ren, "1", [("1", "1")],
                     assume=f"{req} & ~self.wb_bus.we")

    # C15.2 / C15.3 write side
    if len(wps) > 1:
        rep.unk("C15.2", site, "write port", f"{len(wps)} write ports")
        return
    if not wps:
        rep.bad("C15.2", site, "write port", "no write port is requested from the memory: a writable SRAM could never be written")
        return
    WP = wps[0]
    wen = c.drivers_of(('attr', WP, 'en'))
    if not wen:
        rep.bad("C15.2", site, "write_port.en", "the write enable is never driven: writes would be lost")
    elif {d.domain for d in wen} != {"comb"}:
        rep.bad("C15.2", site, "write_port.en", "write enable must be combinational")
    else:
        check_dl(rep, "C15.2", c, "write_port.en == (writable and ~ack & cyc & stb & we) ? sel : 0", wen, "0",
                 [(f"self.writable and ({req} & self.wb_bus.we)", "self.wb_bus.sel")])
    one(rep, c, "C15.3", "write_port.addr == wb_bus.adr (when writable)", ('attr', WP, 'addr'), "self.wb_bus.adr", "self.writable")
    one(rep, c, "C15.3", "write_port.data == wb_bus.dat_w (when writable)", ('attr', WP, 'data'), "self.wb_bus.dat_w", "self.writable")

    geometry(rep, idx, c, ctor, calls)


def one(rep, c, rule, what, target, value, assume):
    ds = c.drivers_of(target)
    if not ds and c.overlapping(target):
        rep.unk(rule, c.fi.site, what, f"{c.show(target)} is " + "driven bit by bit / slice by slice; the rule compares the signal as a whole and does not assemble it")
        return
    if not ds:
        rep.bad(rule, c.fi.site, what, f"{c.show(target)} is never driven")
        return
    if {d.domain for d in ds} != {"comb"}:
        rep.bad(rule, c.fi.site, what, f"{c.show(target)} must be driven combinationally", lines=[d.lineno for d in ds])
        return
    check_dl(rep, rule, c, what, ds, "0", [("1", value)], assume=assume)


def geometry(rep, idx, c, ctor, calls):
    site = ctor.fi.site
    sup = [x for x, gen, ln in ctor.calls_named("__init__")]
    sig = None
    for s in sup:
        for x in ir.walk(s):
            if x[0] == 'call' and x[1] in (('name', 'In'), ('name', 'Out')) and x[2] and x[2][0][0] == 'call':
                inner = x[2][0]
                if kwarg(inner, 'granularity') is not None or kwarg(inner, 'data_width') is not None:
                    sig = inner
    md = None
    for key, (val, gen, ln) in ctor.stores.items():
        for x in ir.walk(val):
            if x[0] == 'call' and x[1][0] in ('name', 'attr') and (x[1][-1] == 'MemoryData'):
                md = x
    if sig is None or md is None:
        rep.unk("C15.4", site, "constructor geometry", "Signature(...) or MemoryData(...) call not found in __init__")
        return
    G = kwarg(sig, 'granularity')
    DW = kwarg(sig, 'data_width')
    AW = kwarg(sig, 'addr_width')
    depth = kwarg(md, 'depth')
    env = {"G": G, "DW": DW}
    want_depth = ctor.parse("(size * G) // DW", env)
    rep.check(depth == want_depth, "C15.4", site, "memory depth == size * granularity // data_width",
              f"depth is {ir.show(depth)}; expected {ir.show(want_depth)}")
    rep.check(kwarg(md, 'shape') == ctor.parse("unsigned(DW)", env), "C15.4", site, "memory rows are data_width wide",
              f"shape is {ir.show(kwarg(md, 'shape') or ('const', None))}")
    # bus address width = exact_log2(depth)
    aw_ok = False
    from .common import log2_arg
    a = log2_arg(ctor, AW) if AW is not None else None     # exact_log2(X) or a bit_length form: equal on powers of two
    if a is not None:
        aw_ok = a == depth or resolves_to_depth(ctor, a, md)
    rep.check(aw_ok, "C15.4", site, "bus address width == exact_log2(memory depth)",
              f"addr_width is {ir.show(AW) if AW else None}")
    mm = ctor.stored("self.wb_bus.memory_map")
    if mm is None or mm[0] != 'call':
        rep.bad("C15.4", site, "memory map publication", "self.wb_bus.memory_map is not assigned a MemoryMap(...) in __init__")
    else:
        maw = kwarg(mm, 'addr_width')
        rep.check(maw is not None and log2_arg(ctor, maw) == ('name', 'size'), "C15.4", site,
                  "map addr_width == exact_log2(size)", f"is {ir.show(kwarg(mm, 'addr_width') or ('const', None))}")
        rep.check(kwarg(mm, 'data_width') == G, "C15.4", site, "map data_width == bus granularity",
                  f"is {ir.show(kwarg(mm, 'data_width') or ('const', None))}; granularity is {ir.show(G)}")
    adds = [x for x, gen, ln in ctor.calls_named("add_resource")]
    ok = len(adds) == 1 and kwarg(adds[0], 'size') == ('name', 'size') and \
        (adds[0][1][1] == ctor.parse("self.wb_bus.memory_map") or (mm is not None and mm[0] == 'call' and adds[0][1][1] == mm))
    rep.check(ok, "C15.4", site, "one resource of `size` granules in the published map",
              f"add_resource calls: {[ir.show(a) for a in adds]}")
    # write granularity = bus granularity
    for wc in calls["write_port"]:
        g = kwarg(wc, 'granularity')
        okg = g is not None and (g == G or g == ctor.parse("self.wb_bus.granularity") or g == c.parse("self.wb_bus.granularity"))
        rep.check(okg, "C15.3", site, "write port granularity == bus granularity",
                  f"write_port(granularity={ir.show(g) if g else None}); bus granularity is {ir.show(G)}")


def resolves_to_depth(ctor, a, md):
    """a is `<X>.depth` where X is the MemoryData or a Memory built from it (amaranth: Memory(data).depth == data.depth)."""
    if a[0] != 'attr' or a[2] != 'depth':
        return False
    x = a[1]
    for _ in range(3):
        if x == md:
            return True
        if x[0] == 'call' and x[1][0] in ('name', 'attr') and x[1][-1] == 'Memory' and x[2]:
            x = x[2][0]                                     # the Memory object itself (reached through a local name)
            continue
        st = ctor.stores.get(ir.show(x))
        if st is None:
            return False
        v = st[0]
        if v == md:
            return True
        if v[0] == 'call' and v[1][0] in ('name', 'attr') and v[1][-1] == 'Memory' and v[2]:
            x = v[2][0]
            continue
        return False
    return False
