"""C17 — CSR builder lays registers out deterministically at the promised offsets."""
import ast

from ..core import ir
from .common import get_fn, kwarg, merge_complementary
from .c07 import guards_with_context
from . import apirules

EXPLANATION = ("csr.Builder: add() refuses when frozen and validates before it stores (CFG dominance / effect order), the "
               "stored name is the full scope path, Cluster/Index push is matched by a pop on every exit of the with body "
               "(including exceptions thrown at the yield), as_memory_map freezes first, walks the registers in insertion "
               "order and passes name / address / size / alignment computed exactly as promised, with add_resource errors "
               "propagating")


def run(rep, idx, tier):
    rep.explanation = EXPLANATION
    rep.assume("A1", "A3", "A4")
    rep.require("C17.1", 8)
    rep.require("C17.2", 4)
    rep.require("C17.3", 8)
    rep.require("C17.4", 1)
    from .c19 import shared_state
    shared_state(rep, idx, rule="C17.4", classes=["Builder"])
    from . import glue as _glue
    _glue.param_refusals(rep, "C17.4", idx, only=["Builder.__init__"])
    # the layouts the builder promises rely on the memory map accepting every legal explicit placement
    from .c02 import legal_placements
    legal_placements(rep, idx, "C17.4")
    # ... and refusing every overlapping one: as_memory_map() places the registers through the map's interval tests
    rep.require("C17.5", 6)
    from .c02 import intervals
    intervals(rep, idx, rule="C17.5")
    # the scope stack is popped by a statement that survives `python -O` (A1: asserts are only ever invariants)
    rep.require("C17.6", 1)
    _glue.pure_asserts(rep, "C17.6", idx, ("csr/reg.py",), classes=("Builder",))
    add(rep, idx)
    scopes(rep, idx)
    as_memory_map(rep, idx)


def add(rep, idx):
    fi = idx.find_func("Builder.add")
    site = fi.site
    cls = fi.cls
    apirules.frozen_guard(rep, "C17.1", idx, fi)
    apirules.atomic(rep, "C17.1", idx, fi)
    apirules.monotone_flag(rep, "C17.1", idx, cls)
    from .common import check_refusal
    c = get_fn(idx, fi)
    check_refusal(rep, "C17.1", c, "add(): only csr.Register objects are accepted", "not isinstance(reg, Register)", "TypeError")
    check_refusal(rep, "C17.1", c, "add(): the name must be a non-empty string",
                  ["name is None or not (isinstance(name, str) and name)", "not (isinstance(name, str) and name)"], "TypeError")
    check_refusal(rep, "C17.1", c, "add(): an explicit offset must be a non-negative integer",
                  "offset is not None and not (isinstance(offset, int) and offset >= 0)", "TypeError")
    check_refusal(rep, "C17.1", c, "add(): an explicit offset must be a multiple of data_width // granularity (whole bus words)",
                  "offset is not None and offset % (self.data_width // self.granularity) != 0", "ValueError")
    check_refusal(rep, "C17.1", c, "add(): a register object can be added only once", "id(reg) in self._registers", "ValueError")
    from .common import closed_refusals
    closed_refusals(rep, "C17.1", c, "add() refuses nothing but the documented cases (placement is checked when the map is built)",
                    extra=["self._frozen"])
    st = c.stores.get(ir.show(c.parse("self._registers[id(reg)]")))
    want = c.parse("(reg, (*self._scope_stack, name), offset)")
    rep.check(st is not None and st[0] == want, "C17.1", site, "the entry records the register, its full scope path and its offset",
              f"self._registers[id(reg)] = {ir.show(st[0]) if st else None}")
    rets = [c.norm(v) for v, gen, ln in c.t.returns]
    rep.check(rets == [('name', 'reg')], "C17.1", site, "add() returns the register", f"returns {[ir.show(r) for r in rets]}", nontrivial=False)


def scopes(rep, idx):
    for name, argname in (("Cluster", "name"), ("Index", "index")):
        fi = idx.find_func(f"Builder.{name}")
        site = fi.site
        rep.analysed(site)
        fg = ScopeGraph(idx, fi)
        g = fg.g
        pushes = [n.id for n in g.nodes if n.kind == "stmt" and "_scope_stack.append(" in fg.text(n.id)]
        pops = {n.id for n in g.nodes if n.kind in ("stmt",) and "_scope_stack.pop(" in fg.text(n.id)}
        yields = [n.id for n in g.nodes if n.kind == "stmt" and n.ast is not None and any(isinstance(x, ast.Yield) for x in ast.walk(n.ast))]
        if len(pushes) != 1 or not yields:
            # the push/pop may live in a shared private context manager used as `with self._scope(x): yield`
            helper = None
            for n in ast.walk(fi.node):
                if isinstance(n, ast.With) and len(n.items) == 1 and isinstance(n.items[0].context_expr, ast.Call):
                    cf = n.items[0].context_expr.func
                    if isinstance(cf, ast.Attribute) and isinstance(cf.value, ast.Name) and cf.value.id == "self" and \
                            any(isinstance(x, (ast.Yield, ast.YieldFrom)) for b in n.body for x in ast.walk(b)):
                        helper = idx.lookup_method(fi.cls, cf.attr)
                        harg = n.items[0].context_expr.args
            if helper is not None and any("_scope_stack.append(" in ast.unparse(x) for x in ast.walk(helper.node) if isinstance(x, ast.Expr)):
                ok_arg = len(harg) == 1 and isinstance(harg[0], ast.Name) and harg[0].id == argname
                rep.form(ok_arg, "C17.2", site, f"{name}: the scope pushed is the caller's {argname} (through {helper.name}())",
                         f"passes {ast.unparse(harg[0]) if harg else None}", nontrivial=False)
                fi, site = helper, helper.site
                fg = ScopeGraph(idx, fi)
                g = fg.g
                pushes = [n.id for n in g.nodes if n.kind == "stmt" and "_scope_stack.append(" in fg.text(n.id)]
                pops = {n.id for n in g.nodes if n.kind in ("stmt",) and "_scope_stack.pop(" in fg.text(n.id)}
                yields = [n.id for n in g.nodes if n.kind == "stmt" and n.ast is not None and any(isinstance(x, ast.Yield) for x in ast.walk(n.ast))]
                argname = helper.params[1] if len(helper.params) > 1 else argname
            if len(pushes) != 1 or not yields:
                rep.form(False, "C17.2", site, f"{name}: push / yield / pop", f"found {len(pushes)} push(es) and {len(yields)} yield(s)")
                continue
        # every path from the push to any exit (normal or exceptional) passes a pop
        seen = set()
        work = [s for s, lab in g.succ[pushes[0]]]
        while work:
            x = work.pop()
            if x in seen or x in pops:
                continue
            seen.add(x)
            work.extend(s for s, lab in g.succ[x])
        leak_normal = g.exit.id in seen
        leak_exc = g.raise_exit.id in seen
        rep.check(not leak_normal, "C17.2", site, f"{name}: scope is popped when the with body completes", "a normal exit keeps the scope on the stack")
        rep.check(not leak_exc, "C17.2", site, f"{name}: scope is popped when the with body raises (pop in finally)",
                  "an exception in the with body leaves the scope on the stack: every later register gets a wrong name")
        # what is pushed is the argument, validated first
        push = g.nodes[pushes[0]].ast
        arg = push.value.args[0] if isinstance(push, ast.Expr) and isinstance(push.value, ast.Call) and push.value.args else None
        rep.check(isinstance(arg, ast.Name) and arg.id == argname, "C17.2", site, f"{name}: the scope pushed is the caller's {argname}",
                  f"pushes {ast.unparse(arg) if arg is not None else None}", nontrivial=False)
        if fi.name == name:
            dom = g.dominators()[pushes[0]]
            guards = [n for n in g.nodes if n.kind == "test" and n.id in dom]
            rep.form(bool(guards), "C17.2", site, f"{name}: the {argname} is validated before it is pushed", "no dominating validation", nontrivial=False)


class ScopeGraph(apirules.FnGraph):
    """Like FnGraph, but a `yield` may raise (an exception thrown into the generator by the with statement)."""

    def __init__(self, idx, fi):
        from ..core import cfg as cfgmod
        from ..core.effects import get_effects
        self.idx = idx
        self.fi = fi
        self.ef = get_effects(idx)
        self.eff = {}

        def may_raise(node, kind):
            if any(isinstance(x, (ast.Yield, ast.YieldFrom)) for x in ast.walk(node)):
                return True
            return bool(self.ef.node_effects(fi, node).raises)
        self.g = cfgmod.build(fi.node, may_raise)
        self.types = {}


def as_memory_map(rep, idx):
    c = get_fn(idx, "Builder.as_memory_map")
    fi = c.fi
    site = fi.site
    rep.analysed(site)
    fg = apirules.graph(idx, fi)
    g = fg.g
    # freeze first
    fr = [n.id for n in g.nodes if n.kind == "stmt" and fg.text(n.id).startswith("self.freeze(")]
    loops = [n.id for n in g.nodes if n.kind == "iter"]
    dom = g.dominators()
    rep.check(bool(fr) and all(fr[0] in dom[l] for l in loops), "C17.3", site, "the builder is frozen before the map is built",
              "self.freeze() does not dominate the layout loop")
    L = [x for x in c.t.loops.values()]
    ok = len(L) == 1 and L[0].kind == 'gen' and c.norm(L[0].iter) == c.parse("self._registers.values()") and not L[0].reversed
    wrong = None
    if any(x.reversed or any(y[0] == 'call' and y[1] in (('name', 'sorted'), ('name', 'reversed')) for y in ir.walk(c.norm(x.iter))) for x in L):
        wrong = "the registers are walked in another order than they were added"
    rep.form(ok, "C17.3", site, "registers are laid out in insertion order (dict order of the builder)",
             f"loop iterates {[ir.show(c.norm(x.iter)) for x in L]}", wrong=wrong)
    if not ok:
        return
    lid = L[0].id
    reg, nm, off = ('item', lid, (0,)), ('item', lid, (1,)), ('item', lid, (2,))
    env = {"reg": reg, "nm": nm, "off": off}
    adds = [(x, gen, ln) for x, gen, ln in c.calls_named("add_resource")]
    adds = merge_complementary(c, adds)
    if len(adds) != 1:
        rep.bad("C17.3", site, "one add_resource per register", f"found {len(adds)} add_resource call(s)")
        return
    call, gen, ln = adds[0]
    pyifs = [fr_ for fr_ in gen if fr_[0] == 'pyif']
    rep.check(not pyifs and ('for', lid) in gen, "C17.3", site, "every register is placed (the call is unconditional in the loop)",
              f"add_resource is guarded by {[ir.show(c.norm(f[1])) for f in pyifs]}")
    rep.check(call[2][:1] == (reg,), "C17.3", site, "the register itself is the resource", f"first argument {ir.show(call[2][0]) if call[2] else None}",
              nontrivial=False)
    rep.check(kwarg(call, 'name') == nm, "C17.3", site, "the resource is named by the register's full scope path",
              f"name={ir.show(kwarg(call, 'name') or ('const', None))}")
    want_addr = ('phi', c.parse("off is not None", env), c.parse("(off * self.granularity) // self.data_width", env), ('const', None))
    alt_addr = ('phi', c.parse("off is None", env), ('const', None), c.parse("(off * self.granularity) // self.data_width", env))
    got_addr = kwarg(call, 'addr')
    # offset // (data_width // granularity) is the same number: add() guarantees offset % (data_width // granularity) == 0
    # and the constructor guarantees that granularity divides data_width
    want3 = ('phi', c.parse("off is None", env), ('const', None), c.parse("off // (self.data_width // self.granularity)", env))
    rep.check(got_addr in (c.norm(want_addr), c.norm(alt_addr), c.norm(want3)), "C17.3", site,
              "address is offset * granularity // data_width for an explicit offset (including 0), implicit otherwise",
              f"addr={ir.show(got_addr) if got_addr else None}")
    want_size = c.parse("(reg.element.width + self.data_width - 1) // self.data_width", env)
    rep.check(kwarg(call, 'size') == want_size, "C17.3", site, "size is ceil(register width / data_width)",
              f"size={ir.show(kwarg(call, 'size') or ('const', None))}")
    want_al = c.norm(('call', ('name', 'ceil_log2'), (want_size,), ()))
    rep.check(kwarg(call, 'alignment') == want_al, "C17.3", site, "each register is aligned to its own size rounded up to a power of two",
              f"alignment={ir.show(kwarg(call, 'alignment') or ('const', None))}")
    # the map: builder geometry; errors propagate (no try around the call)
    recv = call[1][1]
    mm_ok = recv[0] == 'call' and kwarg(recv, 'addr_width') == c.parse("self.addr_width") and kwarg(recv, 'data_width') == c.parse("self.data_width") \
        and kwarg(recv, 'alignment') in (None, ('const', 0))
    rep.check(mm_ok, "C17.3", site, "the map has the builder's address and data width and no extra alignment", f"map is {ir.show(recv)[:100]}")
    trys = [n for n in ast.walk(fi.node) if isinstance(n, ast.Try)]
    rep.check(not trys, "C17.3", site, "conflicts, overlaps and overflow reported by add_resource propagate to the caller",
              "add_resource is wrapped in try/except: a rejected layout could be silently adjusted")
    rets = [c.norm(v) for v, gen_, ln_ in c.t.returns]
    rep.check(rets == [recv], "C17.3", site, "the map that was filled is the map returned", f"returns {[ir.show(r)[:60] for r in rets]}", nontrivial=False)
