"""C07 — Wishbone decoder selects one subordinate and relays only its responses."""
import ast

from ..core import dl, ir
from .common import get_ctx, require_supported, check_dl, show_roles
from .c08 import raise_guards
from . import glue

EXPLANATION = ("wishbone.Decoder.elaborate template: request fan-out by signal name, cyc / dat_r gated by the Case of the "
               "subordinate's own (granularity-trimmed) pattern, optional request signals by name triple with protocol "
               "defaults, responses OR-reduced per signal name under the feature predicates (feature flags are atoms: all "
               "2^6 x 2^6 subsets covered), add() validation; address scaling D7 is a known finding")

DEFAULTS = {"lock": "0", "cti": "CycleType.CLASSIC", "bte": "BurstTypeExt.LINEAR"}


def run(rep, idx, tier):
    rep.explanation = EXPLANATION
    rep.assume("A2", "A3", "A4", "A6")
    rep.require("C07.1", 4)
    rep.require("C07.2", 3)
    rep.require("C07.3", 3)
    rep.require("C07.4", 4)
    rep.require("C07.5", 5)
    rep.require("C07.6", 1)
    rep.require("C07.8", 1)
    rep.require("C07.9", 1)
    glue.map_parameters(rep, "C07.9", idx, "wishbone/bus:Decoder", [("alignment", "alignment")])
    rep.require("C07.10", 4)
    glue.forwarded_parameters(rep, "C07.10", idx, ["wishbone/bus:Decoder"])
    glue.reset_discipline(rep, "C07.8", idx, ["wishbone/bus:Decoder"])
    c = get_ctx(idx, "wishbone:Decoder.elaborate")
    rep.analysed(c.fi.site)
    rep.count("drivers", len(c.t.drivers))
    site = c.fi.site
    # the window list the decoder decodes with is the map's current one (no stale memo in the queries it uses)
    from .c02 import query_coherence
    query_coherence(rep, idx, rule="C07.2", only=("window_patterns", "windows", "get", "overlaps", "items"))
    glue.pairwise_reductions(rep, "C07.4", idx, "wishbone/bus.py")
    # the map a Wishbone interface accepts has exactly the bus geometry (granularity, address bits incl. the granularity bits)
    rep.require("C07.7", 5)
    from .c01 import setters
    setters(rep, idx, rule="C07.7", only="wishbone/bus")
    if not require_supported(rep, "C07.1", c):
        return
    r = glue.decoder_roles(rep, "C07.2", c, "self.bus.adr")
    if r is None:
        return
    env = r.env
    # the Case pattern: the window's pattern with the granularity bits trimmed off (C01.6)
    glue.trimmed_pattern(rep, "C07.2", c, r)

    # ---- C07.1 request fan-out (what the selected subordinate sees) ---------------------------------
    for x in ("dat_w", "we", "stb"):
        sel_val(rep, "C07.1", c, r, f"sub.{x}", f"self.bus.{x}", f"sub.{x} == bus.{x} while selected")
    sel_val(rep, "C07.1", c, r, "sub.sel", "Cat(s.replicate(ratio) for s in self.bus.sel)",
            "sub.sel == bus.sel with each bit fanned out over `ratio` finer select lines")
    # ---- C07.6 address scaling ------------------------------------------------------------------------
    ds = c.drivers_of(c.parse("sub.adr", env))
    if not ds or {d.domain for d in ds} != {"comb"} or len(ds) != 1:
        rep.bad("C07.1", site, "sub.adr", "must have one combinational driver")
    else:
        v = c.norm(ds[0].value)
        plain = {c.parse("self.bus.adr"), c.parse("self.bus.adr[:sub.addr_width]", env)}
        if v in plain:
            rep.ok("C07.6", site, "sub.adr == bus.adr (word address: dense windows have equal data widths)", f"value {ir.show(v)}")
        else:
            rep.bad("C07.6", site, f"sub.adr <= {show_roles(c, v, env)}",
                    "under dense translation add() forces equal data widths, so decoder and subordinate count the same words; "
                    "the address is nevertheless scaled by a factor add() does not force to 1 (window ratio = granularity ratio)",
                    line=ds[0].lineno)

    # ---- C07.2 selection ------------------------------------------------------------------------------
    ds = c.drivers_of(c.parse("sub.cyc", env))
    if not ds or {d.domain for d in ds} != {"comb"}:
        rep.bad("C07.2", site, "sub.cyc", "must be driven combinationally")
    else:
        check_dl(rep, "C07.2", c, "sub.cyc == bus.cyc inside the subordinate's window, else 0", ds, "0",
                 [(r.case, "self.bus.cyc")], env)
    ds = c.drivers_of(c.parse("self.bus.dat_r"))
    if not ds and c.overlapping(c.parse("self.bus.dat_r")):
        rep.unk("C07.2", site, "bus.dat_r", "driven bit by bit / slice by slice; the rule compares the signal as a whole and does not assemble it")
    elif not ds or {d.domain for d in ds} != {"comb"}:
        rep.bad("C07.2", site, "bus.dat_r", "must be driven combinationally")
    else:
        check_dl(rep, "C07.2", c, "bus.dat_r == selected subordinate's dat_r, else 0", ds, "0", [(r.case, "sub.dat_r")], env)

    # ---- C07.3 optional request signals ------------------------------------------------------------------
    for x, d in DEFAULTS.items():
        ds = c.drivers_of(c.parse(f"sub.{x}", env))
        if not ds:
            rep.bad("C07.3", site, f"sub.{x}", f"a subordinate with {x} never receives it")
            continue
        check_dl(rep, "C07.3", c, f"sub.{x} == bus.{x} (default {d} when the decoder lacks it) while selected", ds, "0",
                 [(c.parse(f"hasattr(sub, '{x}')", env), f"getattr(self.bus, '{x}', {d})")], env, assume=r.case)

    # ---- C07.4 responses ------------------------------------------------------------------------------------
    glue.check_fanin(rep, "C07.4", c, "bus.ack == OR of the subordinates' ack", "self.bus.ack", "sub.ack", env, r.L)
    for y in ("err", "rty", "stall"):
        glue.check_fanin(rep, "C07.4", c, f"bus.{y} == OR of the subordinates' {y}", f"self.bus.{y}", f"sub.{y}", env, r.L,
                         bus_cond=f"hasattr(self.bus, '{y}')", term_cond=f"hasattr(sub, '{y}')")
    add_validation(rep, idx)


def sel_val(rep, rule, c, r, target, value, what):
    ds = c.drivers_of(c.parse(target, r.env))
    if not ds and c.overlapping(c.parse(target, r.env)):
        rep.unk(rule, c.fi.site, what, f"{target} is " + "driven bit by bit / slice by slice; the rule compares the signal as a whole and does not assemble it")
        return
    if not ds or {d.domain for d in ds} != {"comb"}:
        rep.bad(rule, c.fi.site, what, f"{target} must be driven combinationally", lines=[d.lineno for d in ds])
        return
    check_dl(rep, rule, c, what, ds, "0", [("1", value)], r.env, assume=r.case)


def guards_with_context(fi):
    """(test IR, enclosing [(cond IR, polarity)], loop iterables, exc, lineno) for every `if t: raise`."""
    out = []

    def visit(stmts, conds, loops):
        for st in stmts:
            if isinstance(st, ast.If):
                t = ir.norm(ir.from_ast(st.test, {}))
                if any(isinstance(s, ast.Raise) for s in st.body):
                    exc = [ast.unparse(s.exc.func) if isinstance(s.exc, ast.Call) else ast.unparse(s.exc)
                           for s in st.body if isinstance(s, ast.Raise) and s.exc is not None]
                    out.append((t, tuple(conds), tuple(loops), exc[0] if exc else "?", st.lineno))
                visit(st.body, conds + [(t, True)], loops)
                visit(st.orelse, conds + [(t, False)], loops)
            elif isinstance(st, ast.For):
                visit(st.body, conds, loops + [ir.norm(ir.from_ast(st.iter, {}))])
            elif isinstance(st, (ast.With, ast.Try)):
                visit(st.body, conds, loops)
    visit(fi.node.body, [], [])
    return out


def add_validation(rep, idx):
    from .common import get_fn, check_refusal
    fi = idx.find_func("wishbone:Decoder.add")
    site = fi.site
    rep.analysed(site)
    c = get_fn(idx, fi)
    unfl = "flipped(sub_bus) if isinstance(sub_bus, wiring.FlippedInterface) else sub_bus"
    check_refusal(rep, "C07.5", c, "add(): subordinate must be a wishbone.Interface (TypeError)",
                  [f"not isinstance({unfl}, Interface)", "not isinstance(sub_bus, Interface)"], "TypeError")
    check_refusal(rep, "C07.5", c, "add(): subordinate granularity must not be coarser than the decoder's",
                  "sub_bus.granularity > self.bus.granularity", "ValueError")
    check_refusal(rep, "C07.5", c, "add(): dense translation requires equal data widths",
                  "not sparse and sub_bus.data_width != self.bus.data_width", "ValueError")
    check_refusal(rep, "C07.5", c, "add(): sparse translation requires granularity == data width of the subordinate",
                  "sparse and sub_bus.granularity != sub_bus.data_width", "ValueError")
    check_refusal(rep, "C07.5", c, "add(): optional outputs err/rty/stall of the subordinate need the decoder's feature",
                  ["hasattr(sub_bus, v) and Feature(v) not in self.bus.features", "hasattr(sub_bus, v) and not hasattr(self.bus, v)"],
                  "ValueError", loop_values=["err", "rty", "stall"])
    from .common import closed_refusals
    closed_refusals(rep, "C07.5", c, "add() refuses nothing but the documented cases (request-side options lock/cti/bte get defaults instead)")
    # C07.11 a refused add() leaves the decoder as it was (D15, fixed)
    from . import apirules
    rep.require("C07.11", 1)
    from .c19 import negative_slice_bounds
    negative_slice_bounds(rep, idx, rule="C07.12", modules=["wishbone/bus.py"])
    apirules.atomic(rep, "C07.11", idx, c.fi, verified=("MemoryMap.add_window",))
    glue.registry_and_window(rep, "C07.5", idx, fi, ("name", "addr", "sparse"))
