"""C20 — ports have the direction their role implies; signatures round-trip."""
import ast

from ..core import ir
from ..core.pol import Pol
from .common import get_ctx

EXPLANATION = ("two-point polarity typing of every port (In/Out of a signature, .flip(), flipped(), .signature, create()): "
               "ports that publish a memory map are targets, the arbiter's bus is an initiator; every driver of a member of "
               "one's own signature-typed port is an output under that polarity; connect() arguments have one signature and "
               "opposite polarities; per signature class the parameter set agrees across __init__ / __eq__ / create() / the "
               "interface constructor; member tables (direction, width, feature guard) follow the parameters")

SIG_SPECS = {
    # class spec -> (interface class spec, {member: (flow, shape text, guard text or None)})
    "csr/bus:Signature": ("csr/bus:Interface", {
        "addr": ("Out", "self.addr_width", None), "r_data": ("In", "self.data_width", None), "r_stb": ("Out", "1", None),
        "w_data": ("Out", "self.data_width", None), "w_stb": ("Out", "1", None)}),
    "Element.Signature": ("csr/bus:Element", {
        "r_data": ("In", "self.width", "self.access.readable()"), "r_stb": ("Out", "1", "self.access.readable()"),
        "w_data": ("Out", "self.width", "self.access.writable()"), "w_stb": ("Out", "1", "self.access.writable()")}),
    "FieldPort.Signature": ("FieldPort", {
        "r_data": ("In", "self.shape", None), "r_stb": ("Out", "1", None), "w_data": ("Out", "self.shape", None), "w_stb": ("Out", "1", None)}),
    "wishbone/bus:Signature": ("wishbone/bus:Interface", {
        "adr": ("Out", "self.addr_width", None), "dat_w": ("Out", "self.data_width", None), "dat_r": ("In", "self.data_width", None),
        "sel": ("Out", "self.data_width // self.granularity", None), "cyc": ("Out", "1", None), "stb": ("Out", "1", None),
        "we": ("Out", "1", None), "ack": ("In", "1", None),
        "err": ("In", "1", "Feature.ERR in self.features"), "rty": ("In", "1", "Feature.RTY in self.features"),
        "stall": ("In", "1", "Feature.STALL in self.features"), "lock": ("Out", "1", "Feature.LOCK in self.features"),
        "cti": ("Out", "CycleType", "Feature.CTI in self.features"), "bte": ("Out", "BurstTypeExt", "Feature.BTE in self.features")}),
    "Source.Signature": ("event:Source", {"i": ("Out", "1", None), "trg": ("In", "1", None)}),
    "PinSignature": (None, {"i": ("In", "unsigned(1)", None), "o": ("Out", "unsigned(1)", None), "oe": ("Out", "unsigned(1)", None)}),
}

# Named exemption from the driver/polarity rule, with reason: csr.Register.element is declared Out(Element.Signature) although
# the register is the responding side.  This is an upstream convention that Multiplexer._check_memory_map enforces
# (`reg.signature.members["element"].flow == Out`) and the test suite pins; it is not one of the bus-facing ports C20 lists.
EXEMPT_PORTS = {"element"}

# initiator ports (the component drives the request side)
INITIATOR_PORTS = {("wishbone/bus.py::Arbiter", "bus")}


def run(rep, idx, tier):
    rep.explanation = EXPLANATION
    rep.assume("A3", "A4")
    rep.require("C20.1", 9)
    rep.require("C20.2", 25)
    rep.require("C20.3", 4)
    rep.require("C20.4", 20)
    rep.require("C20.5", 30)
    rep.require("C20.6", 1)
    from . import glue as _glue
    _glue.argument_agreement(rep, "C20.6", idx)
    rep.require("C20.8", 1)
    _glue.single_pass_iterables(rep, "C20.8", idx)
    rep.require("C20.9", 1)
    _glue.textual_memo_keys(rep, "C20.9", idx)
    rep.require("C20.10", 1)
    _glue.ports_not_rebound(rep, "C20.10", idx)
    rep.require("C20.7", 15)
    _glue.forwarded_parameters(rep, "C20.7", idx, [c_.site.split("::")[0].replace(".py", "") + ":" + c_.qual for c_ in idx.all_classes()
                                                  if c_.method("__init__") is not None])
    _glue.param_refusals(rep, "C20.4", idx, only=["Signature.__init__", "Interface.__init__", "Element.__init__", "Source.__init__"])
    P = Pol(idx)
    port_polarity(rep, idx, P)
    drivers(rep, idx, P)
    plain_member_directions(rep, idx, "C20.2")
    connects(rep, idx, P)
    for spec, (ispec, table) in SIG_SPECS.items():
        sig = idx.find_class(spec)
        rep.analysed(sig.site)
        member_table(rep, idx, sig, table)
        if ispec is not None:
            parameters(rep, idx, P, sig, idx.find_class(ispec))
    signature_census(rep, idx)
    _glue.parameter_views(rep, "C20.4", idx)


def signature_census(rep, idx):
    """Every wiring.Signature subclass of the package, not just the tabled ones: a class that overrides create() returns an
    interface that builds its *own* signature object, so `sig.create().signature == sig` holds only if the class also
    defines a value-based __eq__ (the base class compares subclass instances by identity)."""
    def is_signature(cls, depth=0):
        if depth > 4:
            return False
        for b in cls.bases:
            if b.split(".")[-1] == "Signature" and b != cls.name:
                return True
        return any(is_signature(b, depth + 1) for b in idx.bases_of(cls))
    tabled = {idx.find_class(s).site for s in SIG_SPECS}
    n = 0
    for cls in idx.all_classes():
        if not is_signature(cls):
            continue
        n += 1
        cr, eq = cls.method("create"), cls.method("__eq__")
        if cr is not None and eq is None and not any(b.method("__eq__") is not None for b in idx.bases_of(cls)):
            rep.bad("C20.4", cls.site, f"{cls.qual}: create() round-trips",
                    "create() is overridden but __eq__ is not: the interface it returns carries a signature object of its own, which the "
                    "inherited identity comparison never finds equal to the original", line=cr.node.lineno)
        elif eq is None and not any(b.method("__eq__") is not None for b in idx.bases_of(cls)):
            # wiring.Signature.__eq__ compares instances of a *derived* class by identity ("this will usually be overridden in a
            # derived class"): without a value-based __eq__, two signatures built from the same parameters are unequal, and so are
            # the signatures of two components that have such a member
            init = cls.method("__init__")
            params = [p_ for p_ in (init.params if init is not None else []) if p_ != "self"]
            rep.bad("C20.4", cls.site, f"{cls.qual}: signatures with equal parameters are equal",
                    f"{cls.qual} derives from wiring.Signature and defines no __eq__: the inherited comparison falls back to identity for "
                    f"derived classes, so {cls.qual}({', '.join(params)}) == {cls.qual}({', '.join(params)}) is False for two objects built "
                    "from the same parameters", line=cls.node.lineno)
        elif eq is not None and cls.method("__init__") is not None and [p_ for p_ in cls.method("__init__").params if p_ != "self"] == []:
            # a signature class without parameters: all its instances are equal, and nothing else is
            rets = [r_ for r_ in ast.walk(eq.node) if isinstance(r_, ast.Return)]
            other = eq.params[1] if len(eq.params) > 1 else "other"
            v = ir.norm(ir.from_ast(rets[0].value, {})) if len(rets) == 1 and rets[0].value is not None else None
            want = [ir.norm(ir.parse(t)) for t in (f"isinstance({other}, {cls.name})", f"isinstance({other}, {cls.qual})",
                                                  f"type({other}) is type(self)", f"type({other}) is {cls.name}",
                                                  f"type(self) is type({other})")]
            const = v is not None and v[0] == 'const'
            ident = v in [ir.norm(ir.parse(t)) for t in (f"self is {other}", f"{other} is self")]
            rep.form(v in want, "C20.4", eq.site, f"{cls.qual}.__eq__ is true exactly for another {cls.qual}",
                     f"returns {ir.show(v) if v is not None else 'through several paths'}",
                     wrong=(f"__eq__ returns the constant {v[1]!r}: " + ("every object compares equal to a pin signature" if v[1] else
                                                                          "two signatures without parameters must be equal")) if const else
                     ("__eq__ compares by identity: two signatures built from the same (empty) parameter tuple are unequal" if ident else None))
        elif cr is not None and cls.site not in tabled:
            rep.unk("C20.4", cls.site, f"{cls.qual}: create() / __eq__ agree on the defining parameters",
                    "a signature class with its own create() that is not in the role table: its parameter round-trip is not verified")
        else:
            rep.ok("C20.4", cls.site, f"{cls.qual}: create() round-trips",
                   "tabled class (verified above)" if cls.site in tabled else "inherits create() and equality from wiring.Signature", nontrivial=False)
    rep.ok("C20.4", "-", "all signature classes of the package were enumerated", f"{n} class(es)", nontrivial=False)


def sign(p):
    return "+" if p > 0 else "-"


def port_polarity(rep, idx, P):
    n = 0
    for cls in idx.all_classes():
        init = cls.method("__init__")
        if init is None:
            continue
        ports = set()
        for st in ast.walk(init.node):
            if isinstance(st, ast.Assign) and len(st.targets) == 1:
                t = st.targets[0]
                if isinstance(t, ast.Attribute) and t.attr == "memory_map" and isinstance(t.value, ast.Attribute) and \
                        isinstance(t.value.value, ast.Name) and t.value.value.id == "self" and t.value.attr in idx.members(cls):
                    ports.add(t.value.attr)
        for p in sorted(ports):
            r = P.of(ir.parse(f"self.{p}"), cls)
            what = f"{cls.qual}.{p} publishes a memory map: it is a target port"
            n += 1
            if r is None:
                rep.unk("C20.1", cls.site, what, "cannot type the port")
                continue
            rep.check(r[0] == -1, "C20.1", cls.site, what,
                      f"the port types as {sign(r[0])}{r[1].qual} (member directions of an initiator): wiring.connect() between a standard "
                      "initiator interface and this port fails because both sides drive the request signals")
    for csite, p in sorted(INITIATOR_PORTS):
        cls = next((c for c in idx.all_classes() if c.site == csite), None)
        if cls is None:
            rep.unk("C20.1", csite, f"{p}: initiator port", "class not found")
            continue
        r = P.of(ir.parse(f"self.{p}"), cls)
        rep.check(r is not None and r[0] == +1, "C20.1", cls.site, f"{cls.qual}.{p} drives a target: it is an initiator port",
                  f"the port types as {sign(r[0]) + r[1].qual if r else None}")
    rep.count("target_ports", n)


def drivers(rep, idx, P, rule="C20.2", exempt=None):
    exempt = EXEMPT_PORTS if exempt is None else exempt
    nd = 0
    for f in idx.all_functions():
        if f.name != "elaborate" or f.cls is None:
            continue
        cls = f.cls
        c = get_ctx(idx, f)
        mem = idx.members(cls)
        for d in c.t.drivers:
            t = c.norm(d.target)
            # strip subscripts / slices down to self.<port>[...].<member>
            base = t
            while base[0] == 'sub' or (base[0] == 'call' and base[1][0] == 'attr' and base[1][2] in ('word_select', 'bit_select')):
                base = base[1] if base[0] == 'sub' else base[1][1]
            if base[0] != 'attr':
                continue
            member = base[2]
            port = base[1]
            pbase = port
            while pbase[0] == 'sub':
                pbase = pbase[1]
            if not (pbase[0] == 'attr' and pbase[1] == ('name', 'self') and pbase[2] in mem):
                continue
            if pbase[2] in exempt:
                continue
            r = P.of(pbase, cls)
            if r is None:
                continue                            # not a signature-typed port (plain member)
            pol, sigcls = r
            sm = idx.members(sigcls).get(member)
            if not sm:
                continue
            flow = +1 if sm[0][0] == 'Out' else -1
            nd += 1
            what = f"{cls.qual}.elaborate drives {ir.show(pbase)}.{member}"
            rep.check(pol * flow == +1, rule, f.site, what,
                      f"port polarity {sign(pol)}{sigcls.qual}, member declared {sm[0][0]}: under that orientation `{member}` is an input of "
                      "this component, yet the component drives it")
    rep.count("port_member_drivers", nd)


def plain_member_directions(rep, idx, rule, only_module=None):
    """A plain member (a signal, not an interface) that the component's own elaborate() drives is an output of the component and
    must be declared Out: an In member is driven from outside as well -- as the top-level design its conversion fails with an
    internal DriverConflict, and connect() treats it as an input of the component.  Conversely a plain member that the
    component only *reads* (it occurs in values and guards, never as a target) is an input and must be declared In: declared
    Out, connect() refuses the hardware that is supposed to drive it, or wires it the wrong way round."""
    n = 0
    for f in idx.all_functions():
        if f.name != "elaborate" or f.cls is None or (only_module is not None and f.module.rel != only_module):
            continue
        cls = f.cls
        mem = idx.members(cls)
        c = get_ctx(idx, f)
        # a declaration the member evaluator cannot follow (names computed at run time): nothing is known about directions
        dyn = [k for k in [cls] + list(idx.bases_of(cls)) if k.method("__init__") is not None and
               any(isinstance(n_, (ast.DictComp,)) and any(isinstance(x, ast.Name) and x.id in ("In", "Out") for x in ast.walk(n_))
                   for n_ in ast.walk(k.method("__init__").node)) and not getattr(k, "_members_evaluated", False)]
        used = {x[2] for d_ in c.t.drivers for e in [c.norm(d_.target), c.norm(d_.value)] + [c.norm(fr[1]) for fr in d_.dsl if fr[0] in ('if', 'elif')]
                for x in ir.walk(e) if x[0] == 'attr' and x[1] == ('name', 'self')}
        undeclared = sorted(u for u in used if u not in mem and not u.startswith("_") and u not in ("port",))
        if dyn and undeclared:
            comps = [n_ for n_ in ast.walk(dyn[0].method("__init__").node) if isinstance(n_, ast.DictComp)]
            flow = None
            if len(comps) == 1 and isinstance(comps[0].value, ast.Call) and isinstance(comps[0].value.func, ast.Name) and \
                    comps[0].value.func.id in ("In", "Out"):
                flow = comps[0].value.func.id           # every member the comprehension produces has this one direction
            assigned = {t.attr for k in [cls] + list(idx.bases_of(cls)) for fs in k.methods.values() for f_ in fs for s in ast.walk(f_.node)
                        if isinstance(s, ast.Assign) for t in s.targets if isinstance(t, ast.Attribute) and isinstance(t.value, ast.Name) and t.value.id == "self"}
            tgt_names = set()
            for d_ in c.t.drivers:
                b_ = c.norm(d_.target)
                while b_[0] == 'sub':
                    b_ = b_[1]
                if b_[0] == 'attr' and b_[1] == ('name', 'self'):
                    tgt_names.add(b_[2])
            named = False
            if flow is not None:
                for u in undeclared:
                    if u in assigned:
                        continue                        # an ordinary attribute, not a signature member
                    if u in tgt_names and flow == "In":
                        rep.bad(rule, f.site, f"{cls.qual}.elaborate drives its own member {u}",
                                f"every member {dyn[0].qual}.__init__ declares comes out of one comprehension as In(...), and the component drives `{u}`", line=comps[0].lineno)
                        named = True
                    elif u not in tgt_names and flow == "Out":
                        rep.bad(rule, f.site, f"{cls.qual}.elaborate only reads its member {u}",
                                f"every member {dyn[0].qual}.__init__ declares comes out of one comprehension as Out(...) (line {comps[0].lineno}), "
                                f"but the component never drives `{u}` and reads it: it is an input; declared as an output, the hardware that is "
                                "meant to drive it cannot be connected (connect() sees two outputs)", line=comps[0].lineno)
                        named = True
                    else:
                        rep.ok(rule, f.site, f"{cls.qual}: member {u} has the direction elaborate() needs",
                               f"declared {flow}(...) by the comprehension in {dyn[0].qual}.__init__", nontrivial=False)
            if flow is None:
                rep.unk(rule, f.site, f"{cls.qual}: directions of the members elaborate() uses",
                        f"{dyn[0].qual}.__init__ builds the member dictionary with a comprehension the evaluator does not follow; the "
                        f"directions of {undeclared} are not read off")
        if not mem:
            continue
        driven, read = {}, {}
        for d in c.t.drivers:
            base = c.norm(d.target)
            while base[0] == 'sub' or (base[0] == 'call' and base[1][0] == 'attr' and base[1][2] in ('word_select', 'bit_select')):
                base = base[1] if base[0] == 'sub' else base[1][1]
            if base[0] == 'attr' and base[1] == ('name', 'self') and base[2] in mem:
                driven.setdefault(base[2], d)
            for e in [c.norm(d.value)] + [c.norm(fr[1]) for fr in d.dsl if fr[0] in ('if', 'elif')]:
                for x in ir.walk(e):
                    if x[0] == 'attr' and x[1] == ('name', 'self') and x[2] in mem:
                        read.setdefault(x[2], d)
        for name in sorted(set(driven) | set(read)):
            decl = mem[name]
            flows = {x[0] for x in decl}
            shape = decl[0][1]
            # interface-typed members are the business of the port-orientation rules
            if idx.resolve_class(shape[1] if shape[0] == 'call' else shape, cls.module, cls) is not None:
                continue
            if any(x[0] == 'attr' and x[2] in ("signature", "flip") for x in ir.walk(shape)) or \
                    any(x[0] == 'call' and ir.show(x[1]).endswith("Signature") for x in ir.walk(shape)):
                continue                                # In(other.port.signature), Out(sig.flip()): an interface as well
            n += 1
            if name in driven:
                d = driven[name]
                rep.check(flows == {"Out"}, rule, f.site, f"{cls.qual}.elaborate drives its own member {name}",
                          f"`{name}` is declared {'/'.join(sorted(flows))}(...) at line {decl[0][3]} but the component drives it (line {d.lineno}): "
                          "a member the component drives is an output; declared as an input it has two drivers as soon as the component is the "
                          "top-level design (DriverConflict, an internal error) and connect() wires it the wrong way round", line=d.lineno)
            else:
                d = read[name]
                rep.check(flows == {"In"}, rule, f.site, f"{cls.qual}.elaborate only reads its member {name}",
                          f"`{name}` is declared {'/'.join(sorted(flows))}(...) at line {decl[0][3]} but the component never drives it and reads it "
                          f"(line {d.lineno}): it is an input; declared as an output, the hardware that is meant to drive it cannot be "
                          "connected (connect() sees two outputs) or ends up driven by nothing", line=d.lineno)
    rep.count("plain_member_drivers", n)
    return n


def connects(rep, idx, P):
    n = 0
    for f in idx.all_functions():
        if f.name != "elaborate" or f.cls is None:
            continue
        c = get_ctx(idx, f)
        for args, gen, dsl_, ln in c.t.connects:
            if len(args) != 2:
                continue
            n += 1
            a, b = c.norm(args[0]), c.norm(args[1])
            pa, pb = P.of(a, f.cls), P.of(b, f.cls)
            what = f"connect(m, {ir.show(a)}, {ir.show(b)})"
            if pa is None or pb is None:
                rep.unk("C20.3", f.site, what, "cannot type an argument")
                continue
            rep.check(pa[1] is pb[1] and pa[0] == -pb[0], "C20.3", f.site, what,
                      f"arguments type as {sign(pa[0])}{pa[1].qual} and {sign(pb[0])}{pb[1].qual}: connect() needs one signature with "
                      "opposite polarities")
    rep.count("connect_calls", n)


def dynamic_members(sig):
    """Does the signature assemble its member dict by anything other than literals / constant-key stores?"""
    init = sig.method("__init__")
    if init is None:
        return True
    for n in ast.walk(init.node):
        if isinstance(n, ast.Call) and isinstance(n.func, ast.Attribute) and n.func.attr == "update" and n.args and \
                not isinstance(n.args[0], ast.Dict):
            return True
        if isinstance(n, ast.Call) and isinstance(n.func, ast.Attribute) and n.func.attr == "__init__" and n.args and \
                isinstance(n.args[0], (ast.Subscript, ast.Call, ast.BinOp, ast.IfExp)):
            return True
        if isinstance(n, ast.Assign) and len(n.targets) == 1 and isinstance(n.targets[0], ast.Name) and \
                n.targets[0].id == "members" and isinstance(n.value, (ast.Subscript, ast.Call, ast.BinOp)):
            return True
        if isinstance(n, ast.Dict) and any(k is None for k in n.keys):
            return True
        if isinstance(n, (ast.DictComp, ast.ListComp, ast.GeneratorExp)) and any(
                isinstance(x, ast.Call) and isinstance(x.func, ast.Name) and x.func.id in ("In", "Out") or
                isinstance(x, ast.Name) and x.id in ("In", "Out") for x in ast.walk(n)):
            return True                                 # members produced by a comprehension over a table
        if isinstance(n, ast.For) and any(isinstance(x, ast.Name) and x.id in ("In", "Out") for x in ast.walk(n)):
            return True
    # a literal table of (name, flow, shape...) rows that a comprehension turns into members
    for n in ast.walk(init.node):
        if isinstance(n, (ast.Tuple, ast.List)) and len(n.elts) >= 2 and all(isinstance(e, (ast.Tuple, ast.List)) for e in n.elts) and \
                any(isinstance(x, ast.Name) and x.id in ("In", "Out") for x in ast.walk(n)):
            return True
    return False


def member_table(rep, idx, sig, table, rule="C20.5"):
    mem = idx.members(sig)
    site = sig.site
    enums = idx.enums
    from .common import property_aliases, get_ctor
    ctor = get_ctor(idx, sig)
    aliases = dict(property_aliases(idx, sig))
    # self._x  ->  what the constructor stored there; locals -> their defining expressions
    stored = {ir.parse(k): v[0] for k, v in ctor.stores.items() if k.startswith("self._")}
    local = {('name', k): v for k, v in ctor.t.final_env.items() if isinstance(v, tuple) and v[0] not in ('localfn',) and
             (k not in ctor.fi.params or v != ('name', k))}

    class _Ctx(ir.NormCtx):
        pass
    ctx = ir.NormCtx(enums=enums, aliases=aliases)

    def resolve(e):
        e = ir.norm(e, ctx)
        for _ in range(4):
            e2 = ir.norm(ir.subst(e, lambda x: stored.get(x) if x in stored else local.get(x)), ctx)
            if e2 == e:
                break
            e = e2
        return e
    for name, (flow, shape, guard) in table.items():
        decl = mem.get(name)
        what = f"{sig.qual}.{name}: {flow}({shape})" + (f" iff {guard}" if guard else "")
        if not decl:
            # a member table that is assembled dynamically (lookup in a prebuilt dict, helper call, ...) cannot be read off
            rep.form(False, rule, site, what, "member not found in the declaration",
                     wrong=None if dynamic_members(sig) else "member is not declared")
            continue
        f_, sh, conds, ln, arr = decl[0]
        presence_witness = None
        ok_flow = all(x[0] == flow for x in decl)
        ok_shape = all(resolve(x[1]) == resolve(ir.parse(shape)) for x in decl)
        want_conds = [] if guard is None else [(resolve(ir.parse(guard)), True)]
        got_conds = [(resolve(c_), p) for c_, p in conds]
        ok_guard = len(decl) == 1 and got_conds == want_conds
        if not ok_guard:
            # presence as a Boolean function: OR over the declarations of the conjunction of their conditions, compared with
            # the role's guard on every valuation (enum comparisons of one subject are mutually exclusive; enum methods
            # such as readable() are evaluated from their definition)
            from ..core import dl
            eng = ctor.eng

            def conj(cs):
                return dl.f_and(*[eng.cond(resolve(c_)) if p_ else dl.f_not(eng.cond(resolve(c_))) for c_, p_ in cs]) if cs else dl.T
            try:
                got_f = dl.f_or(*[conj(x[2]) for x in decl])
                want_f = eng.cond(resolve(ir.parse(guard))) if guard is not None else dl.T
                same, rows, wit = dl.equivalent(eng, got_f, want_f)
                if same:
                    ok_guard = True
                else:
                    presence_witness = wit
            except Exception:
                pass
        detail = []
        if not ok_flow:
            detail.append(f"declared {f_}, role needs {flow}")
        if not ok_shape:
            detail.append(f"shape {ir.show(sh)}, expected {shape}")
        if not ok_guard:
            detail.append(f"present under {[ir.show(x) + ('' if p else ' (negated)') for x, p in got_conds]}, expected {guard or 'always'}")
        wrong = None
        if not ok_shape and ok_flow:
            fs, es = resolve(sh), resolve(ir.parse(shape))
            clamp = fs[0] == 'call' and fs[1] in (('name', 'max'), ('name', 'min')) and es in fs[2] and any(a_[0] == 'const' for a_ in fs[2])
            shifted = fs[0] == 'lin' and len(fs[2]) == 1 and fs[2][0][0] == es and (fs[1] != 0 or fs[2][0][1] != 1)
            if clamp or shifted:
                wrong = (f"the member is declared {ir.show(fs)} wide, which differs from the parameter {ir.show(es)} for accepted values "
                         "(a clamped or shifted width): member widths must follow the parameters")

            def const_width(x):
                if x[0] == 'const' and isinstance(x[1], int) and not isinstance(x[1], bool):
                    return x[1]
                if x[0] == 'call' and x[1] == ('name', 'unsigned') and len(x[2]) == 1 and x[2][0][0] == 'const' and isinstance(x[2][0][1], int):
                    return x[2][0][1]
                return None
            if wrong is None and const_width(fs) is not None and const_width(es) is not None and const_width(fs) != const_width(es):
                wrong = f"the member is declared {const_width(fs)} bit(s) wide; its role has {const_width(es)}"

        if not ok_flow:
            wrong = "wrong direction"
        elif not ok_guard and presence_witness is not None:
            wrong = f"present under the wrong condition: differs from `{guard or 'always'}` {presence_witness}"
        elif not ok_guard and not dynamic_members(sig):
            wrong = "present under the wrong condition"
        # a shape expression that differs from the role table may still denote the same shape (rebound parameter, cached
        # value, property with unpacking): no discrepancy is named, the obligation is undecided
        rep.form(ok_flow and ok_shape and ok_guard, rule, site, what, "; ".join(detail), wrong=wrong)
    extra = sorted(set(mem) - set(table))
    rep.check(not extra, rule, site, f"{sig.qual} has no members beyond its role table", f"unexpected members {extra}", nontrivial=False)


def parameters(rep, idx, P, sig, icls):
    site = sig.site
    init = sig.method("__init__")
    params = [p for p in init.params if p != "self"]
    # (a) every parameter is stored under self._<p> and exposed by a property <p>
    stored = set()
    for st in ast.walk(init.node):
        if isinstance(st, ast.Assign) and len(st.targets) == 1 and isinstance(st.targets[0], ast.Attribute) and \
                isinstance(st.targets[0].value, ast.Name) and st.targets[0].value.id == "self":
            stored.add(st.targets[0].attr.lstrip("_"))
    # each parameter must at least be readable back through a property of the same name
    props = {p for p in params if sig.method(p) is not None and sig.method(p).is_property}
    rep.form(set(params) <= stored or set(params) <= props, "C20.4", site, f"{sig.qual}.__init__ keeps every defining parameter {params}",
             f"stored: {sorted(stored)}; properties: {sorted(props)}",
             wrong=(f"parameter(s) {sorted(set(params) - stored - props)} are neither stored nor exposed") if (set(params) - stored - props) else None)
    # (a') a collection of enumeration members is stored converted, whatever collection the caller used: frozenset(Feature(f) for f
    #      in features).  Keeping a caller's frozenset as it is lets raw values ("err") through: no member matches Feature.ERR, the
    #      optional signals are missing, and the signature is unequal to the same features spelled as a set
    if "features" in params:
        from .common import get_ctor
        try:
            ct = get_ctor(idx, sig)
            st_ = ct.stores.get("self._features")
        except Exception:
            st_ = None
        if st_ is not None:
            sv = ct.norm(st_[0])
            want = ct.norm(ct.parse("frozenset(Feature(f) for f in features)"))
            raw = ('name', 'features')
            leaks = sv == raw or (sv[0] == 'phi' and raw in (sv[2], sv[3]))
            # converted whatever is iterated: frozenset(Feature(x) for x in <anything built from the argument>)
            conv = sv[0] == 'call' and sv[1] == ('name', 'frozenset') and len(sv[2]) == 1 and sv[2][0][0] == 'gen' and \
                len(sv[2][0][3]) == 1 and not sv[2][0][3][0][2] and \
                sv[2][0][2] == ('call', ('name', 'Feature'), (sv[2][0][3][0][0],), ()) and ir.mentions(sv[2][0][3][0][1], raw)
            rep.form(sv == want or conv, "C20.4", init.site, f"{sig.qual} stores its features as a frozenset of Feature members",
                     f"stores {ir.show(sv)[:100]}",
                     wrong=("for some inputs the caller's collection is stored unconverted: features given by value (frozenset({'err'})) are "
                            "then not Feature members, `Feature.ERR in self.features` is false, the optional signal is missing, and the "
                            "signature is unequal to the one built from the same features spelled as a set or a list") if leaks else None)
    # (b) __eq__ is true exactly when the other object is of this signature class and every defining parameter is equal:
    #     decided on the Boolean function the method computes (and-chain, early returns, != with False, ... all the same)
    eq = sig.method("__eq__")
    if eq is None:
        rep.bad("C20.4", site, f"{sig.qual}.__eq__", "no __eq__: equality would ignore the parameters")
    else:
        from .common import get_fn, _formula
        from ..core import dl
        c = get_fn(idx, eq)
        isinst = None
        for n in ast.walk(eq.node):
            if isinstance(n, ast.Call) and isinstance(n.func, ast.Name) and n.func.id == "isinstance" and len(n.args) == 2 and \
                    isinstance(n.args[0], ast.Name) and n.args[0].id == "other" and \
                    idx.resolve_class(ir.from_ast(n.args[1], {}), sig.module, sig.outer) is sig:
                isinst = c.norm(ir.from_ast(n, {}))
        rep.check(isinst is not None, "C20.4", eq.site, f"{sig.qual}.__eq__ requires the same signature class", "no isinstance(other, <this class>) test")
        if isinst is not None:
            try:
                found = dl.F
                # properties of `other` (an instance of the same class once the isinstance test passed) resolve like those of self
                from .common import property_aliases
                oth = {('attr', ('name', 'other'), k[2]): ir.subst(v_, lambda x: ('name', 'other') if x == ('name', 'self') else None)
                       for k, v_ in property_aliases(idx, sig).items()}
                for v, gen, ln in c.t.returns:
                    def O(e_):
                        e_ = c.norm(ir.subst(c.norm(e_), lambda x: oth.get(x)))
                        return c.norm(ir.subst(e_, lambda x: oth.get(x)))
                    conds = [(O(fr[1]), fr[2]) for fr in gen if fr[0] == 'pyif']
                    v = c.norm(ir.subst(c.norm(v), lambda x: oth.get(x)))
                    v = c.norm(ir.subst(v, lambda x: oth.get(x)))
                    found = dl.f_or(found, dl.f_and(_formula(c, conds), c.eng.cond(v)))
                alts = []
                def P2(text):
                    e_ = c.norm(ir.subst(c.parse(text), lambda x: oth.get(x)))
                    return c.norm(ir.subst(e_, lambda x: oth.get(x)))
                for p in params:
                    alts.append([c.eng.cond(P2(f"self.{p} == other.{p}")), c.eng.cond(P2(f"Shape.cast(self.{p}) == Shape.cast(other.{p})"))])
                ok = False
                import itertools
                matched = None
                # reflexivity: when `other is self`, the class test and every field comparison hold (the parameters are stored as ints,
                # frozensets, shapes: values equal to themselves), so an identity fast path adds nothing
                refl = None
                for txt in ("other is self", "self is other"):
                    ident = c.eng.cond(c.norm(c.parse(txt)))
                    imp = dl.f_or(dl.f_not(ident), dl.f_and(c.eng.cond(isinst), *[x_ for a_ in alts for x_ in a_]))
                    refl = imp if refl is None else dl.f_and(refl, imp)
                for choice in itertools.product(*[range(len(a_)) for a_ in alts]) if alts else [()]:
                    combo = [alts[i_][k_] for i_, k_ in enumerate(choice)]
                    want = dl.f_and(c.eng.cond(isinst), *combo)
                    if dl.equivalent(c.eng, found, want, assume=refl)[0]:
                        ok = True
                        matched = choice
                        break
                # a shape-like parameter compares by its *cast* shape (the property says "cast shapes"): either __eq__ casts both sides,
                # or the constructor stores the cast shape, so that plain == already compares cast shapes
                if ok and matched is not None:
                    from .common import get_ctor
                    for i_, p in enumerate(params):
                        if p != "shape" or matched[i_] == 1:
                            continue
                        ct = get_ctor(idx, sig)
                        st_ = ct.stores.get(f"self._{p}") or ct.stores.get(f"self.{p}")
                        cast = st_ is not None and not st_[1] and st_[0] == ct.parse(f"Shape.cast({p})")
                        if not cast:
                            # the value the property hands out, resolved through the constructor (records, renamed attributes, locals)
                            try:
                                seen_ = c.norm(c.parse(f"self.{p}"))
                                cast = seen_ == c.norm(c.parse(f"Shape.cast({p})")) or \
                                    (st_ is None and ct.t.final_env.get(p) is not None and ct.norm(ct.t.final_env[p]) == ct.parse(f"Shape.cast({p})")
                                     and any(ct.norm(v_[0]) == ('name', p) or ir.mentions(ct.norm(v_[0]), ct.parse(f"Shape.cast({p})"))
                                             for v_ in ct.stores.values()))
                            except Exception:
                                pass
                        rep.form(cast, "C20.4", eq.site, f"{sig.qual}: signatures whose `{p}` cast to the same Shape are equal",
                                 f"__eq__ compares `{p}` with plain ==, and the constructor stores {ir.show(st_[0])[:80] if st_ else None}",
                                 wrong=None if cast or st_ is None else
                                 (f"`{p}` is stored as given (not always as Shape.cast({p})) and __eq__ does not cast either: an enumeration / layout "
                                  "shape and the plain shape it casts to make unequal signatures although their members are identical"))
                rep.check(ok, "C20.4", eq.site, f"{sig.qual}.__eq__ is true exactly when the class matches and {params} are all equal",
                          f"the method computes {dl.f_show(found)[:160]}")
            except Exception as e:
                rep.unk("C20.4", eq.site, f"{sig.qual}.__eq__ as a Boolean function", str(e)[:100])
    # (c) create() builds the interface class from all parameters (or from the signature itself)
    cr = sig.method("create")
    if cr is None:
        rep.bad("C20.4", site, f"{sig.qual}.create", "no create(): the generic interface would be returned")
        return
    rets = [n.value for n in ast.walk(cr.node) if isinstance(n, ast.Return) and n.value is not None]
    if len(rets) != 1 or not isinstance(rets[0], ast.Call):
        rep.unk("C20.4", cr.site, f"{sig.qual}.create()", "unexpected shape")
        return
    call = rets[0]
    target = idx.resolve_class(ir.from_ast(call.func, {}), sig.module, sig.outer)
    rep.check(target is icls, "C20.4", cr.site, f"{sig.qual}.create() returns a {icls.qual}", f"returns {ast.unparse(call.func)}")
    iinit = icls.method("__init__")
    iparams = [p for p in iinit.params if p != "self"]
    passed = {}
    pos = [p for p in iparams]
    for i, a in enumerate(call.args):
        if i < len(pos):
            passed[pos[i]] = ir.from_ast(a, {})
    for k in call.keywords:
        if k.arg:
            passed[k.arg] = ir.from_ast(k.value, {})
    if passed.get("signature") == ('name', 'self') or (call.args and isinstance(call.args[0], ast.Name) and call.args[0].id == "self"):
        rep.ok("C20.4", cr.site, f"{sig.qual}.create() hands the signature itself to the interface", "all parameters preserved")
    else:
        # a parameter may be read through its property or straight from where the property reads it
        from .common import property_aliases
        al_ = property_aliases(idx, sig)

        def through(e_):
            return ir.norm(ir.subst(e_, lambda x: al_.get(x))) if e_ is not None else None
        missing = [p for p in params if passed.get(p) != ir.parse(f"self.{p}") and through(passed.get(p)) != through(ir.parse(f"self.{p}"))]
        rep.check(not missing, "C20.4", cr.site, f"{sig.qual}.create() passes every defining parameter to the interface",
                  f"not passed (or not from self): {missing}: the created interface's signature would differ from the original")
    # (d) the interface constructor forwards them back into this signature class
    takes_sig = "signature" in iparams
    if takes_sig:
        ok = any(isinstance(n, ast.Call) and isinstance(n.func, ast.Name) and n.func.id == "isinstance" and len(n.args) == 2 and
                 isinstance(n.args[0], ast.Name) and n.args[0].id == "signature" and
                 idx.resolve_class(ir.from_ast(n.args[1], {}), icls.module, icls) is sig for n in ast.walk(iinit.node))
        rep.check(ok, "C20.4", icls.site, f"{icls.qual}.__init__ accepts only a {sig.qual}", "no isinstance(signature, <this class>) guard")
    else:
        built = P.interface_signature(icls)
        rep.check(built is sig, "C20.4", icls.site, f"{icls.qual}.__init__ builds a {sig.qual}", f"builds {built.qual if built else None}")
    fwd_ok = True
    missing = []
    if not takes_sig:
        for n in ast.walk(iinit.node):
            if isinstance(n, ast.Call) and idx.resolve_class(ir.from_ast(n.func, {}), icls.module, icls) is sig:
                got = {k.arg: ir.from_ast(k.value, {}) for k in n.keywords if k.arg}
                sparams = [p for p in params]
                for i, a in enumerate(n.args):
                    if i < len(sparams):
                        got[sparams[i]] = ir.from_ast(a, {})
                missing = [p for p in params if got.get(p) != ('name', p)]
        fwd_ok = not missing
    rep.check(fwd_ok, "C20.4", icls.site, f"{icls.qual}.__init__ forwards every parameter into the signature",
              f"not forwarded: {missing}")
