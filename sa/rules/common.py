"""Helpers shared by the rule packs."""
import ast

from ..core import dl, dsl, ir
from ..core.report import Undecided

_TCACHE = {}


class Ctx:
    """Everything a rule needs about one elaborate() body."""

    def __init__(self, idx, fi, extra_bits=(), no_inline=()):
        self.idx = idx
        self.fi = fi
        self.t = dsl.extract(fi, idx, no_inline=no_inline)
        aliases = dict(property_aliases(idx, fi.cls))
        if fi.cls is not None and fi.name != "__init__" and fi.cls.method("__init__") is not None:
            try:
                aliases.update(constructor_facts(idx, fi.cls, aliases))
            except Exception:
                pass
        self.nctx = self.t.ctx(idx.enums, aliases)
        try:
            self.nctx.never_none = frozenset(self._never_none_attrs())
        except Exception:
            self.nctx.never_none = frozenset()
        self.nctx.rewrites = (self._enum_reduction, self._reduction_canon)
        if not getattr(self.t, "case_values_done", False):
            # inside `Case(K)` of `Switch(S)` (one integer pattern) S *is* K: a value written there in terms of S (`cycle.eq(cycle + 1)`
            # in state k) is the same value in terms of K (`cycle.eq(k + 1)`)
            self.t.case_values_done = True
            for d_ in self.t.drivers:
                for fr in d_.dsl:
                    if fr[0] == 'case' and len(fr[2]) == 1:
                        pat = fr[2][0]
                        try:
                            pn = ir.norm(pat, self.nctx)
                            subj = ir.norm(self.t.switches[fr[1]], self.nctx)
                        except Exception:
                            continue
                        if pn[0] == 'idx' or (pn[0] == 'const' and isinstance(pn[1], int) and not isinstance(pn[1], bool)):
                            if subj[0] in ('sig', 'attr') and ir.contains(ir.norm(d_.value, self.nctx), lambda x: x == subj):
                                d_.value = ir.subst(ir.norm(d_.value, self.nctx), lambda x: pn if x == subj else None)
        self.w = dl.Widths(idx, fi.cls, self.t, extra_bits)
        self.eng = dl.Engine(self.w, self.nctx)
        if not getattr(self.t, "wires_expanded", False):
            self.expand_wires()
            self.t.wires_expanded = True
        self.expand_array_selects()
        self.split_cat_targets()
        self.alias_wires()
        if not getattr(self.t, "prev_expanded", False):
            self.expand_previous_values()
            self.t.prev_expanded = True
        self.groups, self.tir = {}, {}
        for d in self.t.drivers:
            # values that contain a replicated-strobe mask are stored in their Mux form (needs the width knowledge of this context)
            if ir.contains(d.value, lambda x: x[0] == 'call' and x[1][0] == 'attr' and x[1][2] == 'replicate'):
                try:
                    d.value = self.norm(d.value)
                except Exception:
                    pass
            tn = self.norm(d.target)
            key = (d.domain, ir.show(tn))
            self.groups.setdefault(key, []).append(d)
            self.tir[key] = tn

    def expand_previous_values(self):
        """A Python variable that hands a value from one iteration of a generation loop to the next (`prev = None` before the
        loop, `prev = f(i)` at the end of the body, read at the top) is, in iteration i, `f(i - 1)` for i > 0 and the initial
        value for i == 0 -- provided f depends on the iteration only through its index (not through a per-iteration object).
        Drivers that mention such a variable are rewritten to that form and then simplified under their own generation
        conditions (`if prev is not None:` is `i > 0`)."""
        prev = {}
        for fid, f in self.t.folds.items():
            upd = f.update
            if upd is None or upd == ('undef',) or f.loop not in self.t.loops:
                continue
            L = f.loop
            if any(x == ('carry', fid) or (x[0] == 'item' and x[1] == L) or x[0] in ('sig', 'obj', 'acc', 'listacc', 'carry', 'final')
                   or (x[0] == 'sub' and x[2] == ('idx', L)) for x in ir.walk(upd)):
                continue                                # a recurrence, or a value tied to the iteration's own objects
            lp = self.t.loops[L]
            if getattr(lp, "reversed", False) or (lp.kind == 'range' and ir.norm(lp.bounds[0]) != ('const', 0)):
                continue
            shifted = ir.subst(upd, lambda x: ('bin', '-', ('idx', L), ('const', 1)) if x == ('idx', L) else None)
            prev[fid] = ('phi', ('cmp', '<', ('const', 0), ('idx', L)), shifted, f.init)
        if not prev:
            return

        def sub(e):
            return ir.subst(e, lambda x: prev.get(x[1]) if x[0] == 'carry' and x[1] in prev else None)
        for d_ in self.t.drivers:
            if not any(x[0] == 'carry' and x[1] in prev for e in [d_.target, d_.value] + [fr[1] for fr in d_.gen if fr[0] == 'pyif'] +
                       [fr[1] for fr in d_.dsl if fr[0] in ('if', 'elif')] for x in ir.walk(e)):
                continue
            gen = tuple((fr[0], self.norm(sub(fr[1]))) + tuple(fr[2:]) if fr[0] == 'pyif' else fr for fr in d_.gen)
            known = {}
            for fr in gen:
                if fr[0] == 'pyif':
                    pos, pol = ir.split_neg(fr[1])
                    known[pos] = (bool(fr[2][0]) if isinstance(fr[2], tuple) else bool(fr[2])) == pol

            def resolve(e):
                def f_(x):
                    if x[0] == 'phi':
                        pos, pol = ir.split_neg(self.norm(x[1]))
                        if pos in known:
                            return x[2] if known[pos] == pol else x[3]
                    return None
                return self.norm(ir.subst(self.norm(e), f_))
            d_.gen = gen
            d_.target = resolve(sub(d_.target))
            d_.value = resolve(sub(d_.value))
            d_.dsl = tuple((fr[0], resolve(sub(fr[1]))) + tuple(fr[2:]) if fr[0] in ('if', 'elif') else fr for fr in d_.dsl)

    def expand_wires(self):
        """`x.eq(w)` where w is a local signal driven only combinationally and only as a whole: the driver is replaced by
        w's own drivers re-targeted at x (guards conjoined, w's priority order kept) plus a lowest-priority entry for
        w's default value.  An intermediate combinational wire is then invisible to the decision lists."""
        for _ in range(3):
            whole, partial, nd = {}, set(), {}
            for d_ in self.t.drivers:
                tn = self.norm(d_.target)
                if tn[0] == 'sig':
                    whole.setdefault(tn, []).append(d_)
                else:
                    for x in ir.walk(tn):
                        if x[0] == 'sig':
                            partial.add(x)
            wires = {s: ds for s, ds in whole.items() if s not in partial and all(x.domain == 'comb' for x in ds)}
            if not wires:
                return
            out, changed = [], False
            for d_ in self.t.drivers:
                v = self.norm(d_.value)
                if v[0] == 'sig' and v in wires and self.norm(d_.target) != v:
                    init = self.wire_default(v)
                    if init is None:
                        out.append(d_)
                        continue
                    changed = True
                    out.append(dsl.Driver(d_.domain, d_.target, init, d_.dsl, d_.gen, tuple(d_.order) + (0,), d_.lineno, d_.seqno))
                    for w_ in wires[v]:
                        gen = d_.gen + tuple(fr for fr in w_.gen if fr not in d_.gen)
                        out.append(dsl.Driver(d_.domain, d_.target, w_.value, d_.dsl + w_.dsl, gen,
                                              tuple(d_.order) + (1,) + tuple(w_.order), w_.lineno, w_.seqno))
                else:
                    out.append(d_)
            if not changed:
                return
            self.t.drivers[:] = out

    def expand_array_selects(self):
        """x.eq(Array(items)[w]) where `items` is a Python list filled by exactly one unconditional append per iteration of
        one loop: that is one driver per iteration, `x.eq(item_i)` under `w == i`."""
        if getattr(self.t, "arrays_expanded", False):
            return
        self.t.arrays_expanded = True
        out = []
        for d_ in self.t.drivers:
            v = d_.value
            try:
                vn = ir.norm(v, self.nctx)
            except Exception:
                out.append(d_)
                continue
            ok = vn[0] == 'sub' and vn[1][0] == 'call' and vn[1][1] == ('name', 'Array') and len(vn[1][2]) == 1 and \
                vn[1][2][0][0] == 'listacc' and vn[2][0] != 'slice'
            la = self.t.lists.get(vn[1][2][0][1]) if ok else None
            if la is None or len(la.items) != 1:
                out.append(d_)
                continue
            expr, igen, ln = la.items[0]
            extra = igen[len(la.home):]
            loops = [fr for fr in extra if fr[0] == 'for']
            if len(extra) != 1 or len(loops) != 1 or self.t.loops[loops[0][1]].reversed:
                out.append(d_)
                continue
            L = loops[0][1]
            lp = self.t.loops[L]
            # the position in the list is the iteration number: enumerate index / range(0, n) index
            if not (lp.kind == 'enum' or (lp.kind == 'range' and ir.norm(lp.bounds[0], self.nctx) == ('const', 0)) or lp.kind in ('seq', 'gen')):
                out.append(d_)
                continue
            if lp.kind in ('seq', 'gen'):
                out.append(d_)                          # no index variable to compare with: left opaque
                continue
            cond = ('cmp', '==', vn[2], ('idx', L))
            # `if items:` around the statement only says that some iteration ran -- true in every iteration's own view
            own = vn[1][2][0]
            kept = tuple(fr for fr in d_.gen if not (fr[0] == 'pyif' and fr[2] and ir.norm(fr[1], self.nctx) == own))
            gen = kept + tuple(fr for fr in extra if fr not in kept)
            out.append(dsl.Driver(d_.domain, d_.target, expr, d_.dsl + (('if', cond),), gen, d_.order, d_.lineno, d_.seqno))
        self.t.drivers[:] = out

    def split_cat_targets(self):
        """Cat(a, b).eq(Cat(x, y)) with every part one bit wide is a.eq(x); b.eq(y)."""
        if getattr(self.t, "cats_split", False):
            return
        self.t.cats_split = True
        out = []
        for d_ in self.t.drivers:
            try:
                tn, vn = ir.norm(d_.target, self.nctx), ir.norm(d_.value, self.nctx)
            except Exception:
                out.append(d_)
                continue
            if tn[0] == 'call' and tn[1] == ('name', 'Cat') and vn[0] == 'call' and vn[1] == ('name', 'Cat') and \
                    len(tn[2]) == len(vn[2]) and tn[2] and all(self.w.bit(x) for x in tn[2]) and all(self.w.bit(x) for x in vn[2]):
                for k_, (tp, vp) in enumerate(zip(tn[2], vn[2])):
                    out.append(dsl.Driver(d_.domain, tp, vp, d_.dsl, d_.gen, tuple(d_.order) + (k_,), d_.lineno, d_.seqno))
            elif tn[0] == 'call' and tn[1] == ('name', 'Cat') and len(tn[2]) == 1 and tn[2][0][0] == 'listacc' and \
                    vn[0] == 'call' and vn[1][0] == 'attr' and vn[1][2] == 'replicate' and len(vn[2]) == 1 and not vn[3] and \
                    vn[2][0] == ('call', ('name', 'len'), (tn[2][0],), ()) and self.w.bit(vn[1][1]) and tn[2][0][1] in self.t.lists and \
                    not self.t.lists[tn[2][0][1]].home and not any(fr[0] == 'for' for fr in d_.gen) and \
                    all(self.w.bit(ir.norm(t_, self.nctx)) for t_, g_, l_ in self.t.lists[tn[2][0][1]].items):
                # Cat(one-bit targets).eq(s.replicate(len(targets))): every target gets s
                A = self.t.lists[tn[2][0][1]]
                for k_, (ta, ga, la) in enumerate(A.items):
                    out.append(dsl.Driver(d_.domain, ta, vn[1][1], d_.dsl, self._nonempty_dropped(d_.gen, ga) + tuple(ga), tuple(d_.order) + (k_,), d_.lineno, d_.seqno))
            elif tn[0] == 'call' and tn[1] == ('name', 'Cat') and vn[0] == 'call' and vn[1] == ('name', 'Cat') and \
                    len(tn[2]) == 1 and len(vn[2]) == 1 and tn[2][0][0] == 'listacc' and vn[2][0][0] == 'listacc' and \
                    self._parallel_lists(tn[2][0], vn[2][0], d_):
                # Cat(targets).eq(Cat(values)) with two lists filled side by side, each target as wide as its value: the k-th
                # target gets the k-th value, in the generation context of the append
                A, B = self.t.lists[tn[2][0][1]], self.t.lists[vn[2][0][1]]
                for k_, ((ta, ga, la), (vb, gb, lb)) in enumerate(zip(A.items, B.items)):
                    out.append(dsl.Driver(d_.domain, ta, vb, d_.dsl, self._nonempty_dropped(d_.gen, ga) + tuple(ga), tuple(d_.order) + (k_,), d_.lineno, d_.seqno))
            else:
                out.append(d_)
        self.t.drivers[:] = out

    def _nonempty_dropped(self, gen, item_gen):
        """The statement's own generation frames, without `if xs:` tests on a list that has an element whenever this item exists
        (an append under exactly the item's generation context): in the item's context that test is true."""
        out = []
        for fr in gen:
            if fr[0] == 'pyif' and fr[2]:
                cn = ir.norm(fr[1], self.nctx)
                if cn[0] == 'listacc' and cn[1] in self.t.lists and any(tuple(g_) == tuple(item_gen) for v_, g_, l_ in self.t.lists[cn[1]].items):
                    continue
            out.append(fr)
        return tuple(out)

    def _parallel_lists(self, la, lb, d_):
        A, B = self.t.lists.get(la[1]), self.t.lists.get(lb[1])
        if A is None or B is None or not A.items or len(A.items) != len(B.items) or A.home or B.home:
            return False
        if any(fr[0] == 'for' for fr in d_.gen):
            return False
        for (ta, ga, _), (vb, gb, _) in zip(A.items, B.items):
            if tuple(ga) != tuple(gb):
                return False
            ta_, vb_ = ir.norm(ta, self.nctx), ir.norm(vb, self.nctx)
            same_width = False
            if ta_[0] == 'sig' and ta_[1] in self.t.sigs:
                ctor = self.t.sigs[ta_[1]].ctor
                if ctor[0] == 'call' and ctor[1] == ('attr', ('name', 'Signal'), 'like') and ctor[2] and ir.norm(ctor[2][0], self.nctx) == vb_:
                    same_width = True
            if self.w.bit(ta_) and self.w.bit(vb_):
                same_width = True
            if not same_width:
                wa, wb = self.width_of(ta_), self.width_of(vb_)
                same_width = wa is not None and wa == wb
            if not same_width:
                return False
        return True

    def alias_wires(self):
        """A local combinational signal with exactly one, unconditional, whole-signal driver is another name for the value
        assigned to it -- provided it is as wide as that value.  Width is verified in three cases (one-bit value and
        one-bit wire; `Signal.like(<the value>)`; `Signal(<value>.shape())`); otherwise the wire is *opaque*: anything
        compared through it is undecided, never a violation."""
        whole, partial = {}, set()
        for d_ in self.t.drivers:
            tn = self.norm(d_.target)
            if tn[0] == 'sig':
                whole.setdefault(tn, []).append(d_)
            else:
                for x in ir.walk(tn):
                    if x[0] == 'sig':
                        partial.add(x)
        self.opaque_wires = {}
        # a wire that is indexed / sliced / measured anywhere is a vector the rules know by name: left alone
        indexed = set()

        def scan(e):
            for x in ir.walk(e):
                if x[0] == 'sub' and x[1][0] == 'sig':
                    indexed.add(x[1])
                if x[0] == 'call' and x[1] == ('name', 'len') and x[2] and x[2][0][0] == 'sig':
                    indexed.add(x[2][0])
        for d_ in self.t.drivers:
            scan(ir.norm(d_.value, self.nctx))
            scan(ir.norm(d_.target, self.nctx))
            for fr in d_.dsl + d_.gen:
                for part in fr[1:]:
                    if isinstance(part, tuple) and part and isinstance(part[0], str):
                        try:
                            scan(ir.norm(part, self.nctx))
                        except Exception:
                            pass
        for L in self.t.loops.values():
            try:
                scan(ir.norm(L.iter, self.nctx))
            except Exception:
                pass
        for s, ds in whole.items():
            if s in partial or s in indexed or len(ds) != 1 or ds[0].domain != 'comb' or ds[0].dsl:
                continue
            sig = self.t.sigs.get(s[1])
            if sig is None or sig.ctor[0] != 'call':
                continue
            d_ = ds[0]
            if [fr for fr in d_.gen if fr[0] == 'pyif'] != [fr for fr in sig.gen if fr[0] == 'pyif']:
                continue                                    # driven only in some configurations
            v = self.norm(d_.value)
            if any(x == s for x in ir.walk(v)):
                continue
            ctor = sig.ctor
            verified = False
            if self.w.bit(s) and self.w.bit(v):
                verified = True
            elif ctor[1] == ('attr', ('name', 'Signal'), 'like') and ctor[2] and self.norm(ctor[2][0]) == v:
                verified = True
            elif ctor[1] == ('name', 'Signal') and ctor[2] and self.norm(ctor[2][0]) == self.norm(('call', ('attr', v, 'shape'), (), ())):
                verified = True
            if not verified and ctor[1] == ('name', 'Signal') and ctor[2]:
                wv = self.declared_width(v)
                if wv is not None and wv == self.norm(ctor[2][0]):
                    verified = True
            if not verified and ctor[1] == ('attr', ('name', 'Signal'), 'like') and ctor[2]:
                # Signal.like(model): as wide as the model; verified when model and value have the same declared width
                wm, wv = self.declared_width(self.norm(ctor[2][0])), self.declared_width(v)
                if wm is not None and wm == wv:
                    verified = True
            if verified:
                self.nctx.aliases[s] = v
            else:
                self.opaque_wires[s] = v
                self.nctx.aliases[s] = ('opaque', f"wire {s[2]} (= {ir.show(v)[:50]}; its width {ir.show(ctor)[:40]} is not verified against the value)")

    def declared_width(self, e):
        """Width of a value built from this component's own declared members with bitwise operators, as an expression over
        self (constructor parameters are rewritten to the attribute the constructor stores them in); None if unknown."""
        cls = self.fi.cls
        if cls is None:
            return None
        if e[0] in ('nary', 'bin') and e[1] in ('&', '|', '^'):
            ws = {self.declared_width(x) for x in (e[2] if e[0] == 'nary' else (e[2], e[3]))}
            return ws.pop() if len(ws) == 1 and None not in ws else None
        if e[0] == 'un' and e[1] == '~':
            return self.declared_width(e[2])
        if e[0] == 'attr' and e[1] == ('name', 'self'):
            decls = self.idx.members(cls).get(e[2])
            if not decls or len(decls) != 1 or decls[0][4]:
                return None
            shape = decls[0][1]
            if shape[0] == 'call' and shape[1] == ('name', 'unsigned') and len(shape[2]) == 1:
                shape = shape[2][0]
            try:
                ctor = get_ctor(self.idx, cls)
            except Exception:
                return None
            p2a = {}
            for k, (val, gen, ln) in ctor.stores.items():
                if val[0] == 'name' and val[1] in ctor.fi.params and k.startswith("self."):
                    p2a.setdefault(('name', val[1]), ir.parse(k))
            return self.norm(ir.subst(shape, lambda x: p2a.get(x)))
        return None

    # ---- bit view of whole-vector assignments -------------------------------------------------------------------
    def project(self, e, k, depth=0):
        """Bit k of a vector-valued expression, as an expression over bits: &, |, ^, ~ and Mux distribute; a signal X gives
        X[k]; s.replicate(n) gives s; a constant 0 gives 0; a local combinational wire gives the bit-k view of its own
        drivers (priority order as nested Mux, unassigned = bit k of its default; a wire created with Signal.like(model)
        starts with the model's init -- A7).  None when something else occurs."""
        if depth > 6:
            return None
        e = self.norm(e)
        kx = e[0]
        if kx == 'const':
            return ('const', 0) if e[1] in (0, False) else None
        if kx == 'nary' and e[1] in ('&', '|', '^'):
            parts = [self.project(x, k, depth + 1) for x in e[2]]
            return None if any(p is None for p in parts) else ('nary', e[1], tuple(parts))
        if kx == 'un' and e[1] == '~':
            p_ = self.project(e[2], k, depth + 1)
            return None if p_ is None else ('un', '~', p_)
        if kx == 'call' and e[1] == ('name', 'Mux') and len(e[2]) == 3:
            a, b = self.project(e[2][1], k, depth + 1), self.project(e[2][2], k, depth + 1)
            return None if a is None or b is None else ('call', ('name', 'Mux'), (e[2][0], a, b), ())
        if kx == 'call' and e[1][0] == 'attr' and e[1][2] == 'replicate' and self.w.bit(e[1][1]):
            return e[1][1]
        if kx in ('phi', 'ifexp'):
            a, b = self.project(e[2], k, depth + 1), self.project(e[3], k, depth + 1)
            return None if a is None or b is None else ('phi', e[1], a, b)
        if kx == 'sig':
            return self.project_wire(e, k, depth)
        if kx == 'call' and e[1] == ('name', 'Cat') and len(e[2]) == 1 and e[2][0][0] == 'listacc' and not e[3] and k[0] == 'idx':
            # Cat(xs) with xs filled by one append per iteration of the loop that k indexes (an empty list before it, every
            # iteration appends exactly one 1-bit value): position k of the list is the value appended in iteration k
            la = self.t.lists.get(e[2][0][1])
            L = self.t.loops.get(k[1])
            if la is not None and L is not None and not la.home and len(la.items) == 1 and L.kind in ('enum', 'seq', 'range') and \
                    not getattr(L, "reversed", False) and (L.kind != 'range' or self.norm(L.bounds[0]) == ('const', 0)):
                item, gen, ln = la.items[0]
                item = self.norm(item)
                if tuple(gen) == (('for', k[1]),) and (item[0] == 'cmp' or self.w.bit(item)) and getattr(la, "init_len", 0) == 0:
                    return item
            return None
        if kx == 'call' and e[1] == ('name', 'Cat') and len(e[2]) == 1 and e[2][0][0] == 'gen' and not e[3] and len(e[2][0][3]) == 1:
            # Cat(f(x) for x in SEQ) with one-bit elements: bit k is f(SEQ[k])
            tgt, it, ifs = e[2][0][3][0]
            elt = e[2][0][2]
            if not ifs and tgt[0] == 'bv' and it[0] in ('attr', 'name') and (elt[0] == 'cmp' or self.w.bit(elt)):
                return self.norm(ir.subst(elt, lambda x: ('sub', it, k) if x == tgt else None))
            return None
        if kx in ('attr', 'sub') and not (kx == 'sub' and e[2][0] == 'slice'):
            return ('sub', e, k)
        return None

    def project_wire(self, s, k, depth):
        sig = self.t.sigs.get(s[1])
        if sig is None:
            return None
        whole = [d_ for d_ in self.t.drivers if self.norm(d_.target) == s]
        bits = [d_ for d_ in self.t.drivers if self.norm(d_.target)[0] == 'sub' and self.norm(d_.target)[1] == s]
        if any(d_.domain != 'comb' for d_ in whole + bits):
            return ('sub', s, k)                        # a register: its bit is a state bit
        if bits and not whole:
            # W[i] <= v inside the loop over i: in iteration k the wire's bit k is v
            mine = [d_ for d_ in bits if self.norm(d_.target)[2] == k]
            if len(mine) == 1 and len(bits) == 1 and not mine[0].dsl:
                return self.norm(mine[0].value)
            return None
        if not whole:
            return None
        # default: init= of the constructor, the model's init for Signal.like(model), else 0
        ctor = sig.ctor
        kws = dict(ctor[3]) if ctor[0] == 'call' else {}
        dflt = None
        if 'init' in kws or 'reset' in kws:
            iv = self.norm(kws.get('init', kws.get('reset')))
            dflt = ('const', 0) if iv == ('const', 0) else self.norm(('sub', iv, k))
            if dflt != ('const', 0):
                self.w.extra.add(ir.show(dflt))
        elif ctor[0] == 'call' and ctor[1] == ('attr', ('name', 'Signal'), 'like') and ctor[2]:
            model = self.norm(ctor[2][0])
            dflt = self.model_init_bit(model, k)
        else:
            dflt = ('const', 0)
        if dflt is None:
            return None
        out = dflt
        for d_ in sorted(whole, key=lambda x: (tuple(c_.v if hasattr(c_, "v") else c_ for c_ in x.order), x.seqno)):
            conds = []
            for fr in d_.dsl:
                if fr[0] == 'if':
                    conds.append(self.norm(fr[1]))
                else:
                    return None
            v = self.project(d_.value, k, depth + 1)
            if v is None:
                return None
            if conds:
                cnd = conds[0] if len(conds) == 1 else ('nary', '&', tuple(conds))
                if not all(self.w.bit(x) for x in conds):
                    return None
                out = ('call', ('name', 'Mux'), (cnd, v, out), ())
            else:
                out = v
        return out

    def model_init_bit(self, model, k):
        """Bit k of the reset value of the signal a wire was created `like`."""
        if model[0] == 'attr' and model[1] == ('name', 'self') and self.fi.cls is not None:
            for kcls in [self.fi.cls] + list(self.idx.bases_of(self.fi.cls)):
                st = find_init_assign(kcls, model[2], self.idx)
                if st is not None and isinstance(st.value, ast.Call) and ast.unparse(st.value.func) == "Signal":
                    iv = next((kw.value for kw in st.value.keywords if kw.arg in ("init", "reset")), None)
                    if iv is None or (isinstance(iv, ast.Constant) and iv.value in (0, False)):
                        return ('const', 0)
                    b_ = self.norm(('sub', ir.from_ast(iv, {}), k))
                    self.w.extra.add(ir.show(b_))
                    return b_
            return None
        # a member of a port / another interface: declared members start at 0 unless the declaration says otherwise (A7)
        if model[0] == 'attr':
            return ('const', 0)
        return None

    def project_cond(self, e, k):
        """A guard over whole vectors seen from bit k: X.any() / X != 0 is X[k] | <some other bit of X>."""
        def f(x):
            if x[0] == 'cmp' and x[1] == '!=' and x[3] == ('const', 0) and not self.w.bit(x[2]):
                p_ = self.project(x[2], k)
                if p_ is None:
                    return None
                other = ('name', f"other_bits<{ir.show(x[2])[:40]}>")
                self.w.extra.add(ir.show(other))
                return ('nary', '|', (p_, other))
            return None
        return self.norm(ir.subst(self.norm(e), f))

    def bit_view(self, target, k):
        """Pseudo-drivers of target[k] obtained from the whole-vector drivers of target; None if some value cannot be projected."""
        T = self.norm(target)
        out = []
        for d_ in self.drivers_of(T):
            v = self.project(d_.value, k)
            if v is None:
                return None
            frames = []
            for fr in d_.dsl:
                if fr[0] == 'if':
                    frames.append(('if', self.project_cond(fr[1], k)) + tuple(fr[2:]))
                elif fr[0] == 'elif':
                    frames.append(('elif', self.project_cond(fr[1], k), tuple(self.project_cond(p_, k) for p_ in fr[2])) + tuple(fr[3:]))
                elif fr[0] == 'else':
                    frames.append(('else', tuple(self.project_cond(p_, k) for p_ in fr[1])) + tuple(fr[2:]))
                else:
                    frames.append(fr)
            out.append(dsl.Driver(d_.domain, ('sub', T, k), v, tuple(frames), d_.gen, d_.order, d_.lineno, d_.seqno))
        return out

    def wire_default(self, s, depth=0):
        """Reset / default value of a local signal: init= of its constructor, the default of the signal it is `like`, else 0."""
        sig = self.t.sigs.get(s[1])
        if sig is None or sig.ctor[0] != 'call' or depth > 3:
            return None
        kws = dict(sig.ctor[3])
        if 'init' in kws or 'reset' in kws:
            return kws.get('init', kws.get('reset'))
        fn = sig.ctor[1]
        if fn == ('attr', ('name', 'Signal'), 'like') and sig.ctor[2]:
            src = self.norm(sig.ctor[2][0])
            if src[0] == 'sig':
                return self.wire_default(src, depth + 1)
            return None                                  # like(<port member>): default not known here
        return ('const', 0)

    def _mandatory_members(self):
        """Members that wishbone.Signature declares unconditionally: hasattr(<wishbone interface>, m) is always true for them."""
        if not hasattr(self, "_mand"):
            self._mand = frozenset()
            if self.fi.module.rel.startswith("wishbone"):
                try:
                    sig = self.idx.find_class("wishbone/bus:Signature")
                    self._mand = frozenset(k for k, v in self.idx.members(sig).items() if v and all(not x[2] for x in v))
                except Exception:
                    pass
        return self._mand

    def norm(self, e):
        e = ir.norm(e, self.nctx)
        if ir.contains(e, lambda x: x[0] == 'has') and self._mandatory_members():
            mand = self._mand
            e2 = ir.subst(e, lambda x: ('const', True) if x[0] == 'has' and x[2] in mand else None)
            if e2 != e:
                e = ir.norm(e2, self.nctx)
        if ir.contains(e, lambda x: x[0] == 'last'):
            e = ir.norm(ir.subst(e, self._last), self.nctx)
        if ir.contains(e, lambda x: x[0] == 'cmp' and x[1] == 'is' and x[3] == ('const', None) and x[2][0] == 'attr' and x[2][1] == ('name', 'self')):
            nn = self._never_none_attrs()
            e2 = ir.subst(e, lambda x: ('const', False) if x[0] == 'cmp' and x[1] == 'is' and x[3] == ('const', None) and x[2][0] == 'attr' and
                          x[2][1] == ('name', 'self') and x[2][2] in nn else None)
            if e2 != e:
                e = ir.norm(e2, self.nctx)
        if ir.contains(e, lambda x: x[0] == 'call' and x[1][0] == 'attr' and x[1][2] in ('all', 'any') and not x[2]):
            e2 = ir.subst(e, self._enum_reduction)
            if e2 != e:
                e = ir.norm(e2, self.nctx)
        if ir.contains(e, lambda x: x[0] == 'attr' and x[1][0] == 'call' and x[1][1][0] in ('name', 'attr')):
            e2 = ir.subst(e, self._ctor_field)
            if e2 != e:
                e = ir.norm(e2, self.nctx)
        if ir.contains(e, lambda x: x[0] == 'call' and x[1][0] == 'attr' and x[1][2] == 'replicate'):
            e2 = ir.subst(e, self._mask_to_mux)
            if e2 != e:
                e = ir.norm(e2, self.nctx)
        return e

    def _enum_reduction(self, x):
        """`S.all()` / `S.as_value().all()` for a signal S that this function decodes with a Switch over the members of one
        enumeration: all bits set is the member whose value is 2**w - 1 (w = the width of the largest member); `.any()` is
        `S != <the member 0>`.  Only when such members exist."""
        if not (x[0] == 'call' and x[1][0] == 'attr' and x[1][2] in ('all', 'any') and not x[2] and not x[3]):
            return None
        s = x[1][1]
        if s[0] == 'call' and s[1][0] == 'attr' and s[1][2] == 'as_value' and not s[2]:
            s = s[1][1]
        for sid, subj in self.t.switches.items():
            if ir.norm(subj, self.nctx) != ir.norm(s, self.nctx):
                continue
            pats = [p_[0] for p_ in self.t.switch_cases.get(sid, []) if len(p_) == 1]
            enums = {p_[1][1] for p_ in pats if p_[0] == 'attr' and p_[1][0] == 'name'}
            if len(enums) != 1 or len(pats) != len(self.t.switch_cases.get(sid, [])):
                continue
            tab = self.idx.enums.get(next(iter(enums)))
            if not tab or not all(isinstance(v, int) and v >= 0 for v in tab.values()):
                continue
            w = max(v.bit_length() for v in tab.values()) or 1
            want = (2 ** w - 1) if x[1][2] == 'all' else 0
            hit = [k for k, v in tab.items() if v == want]
            if len(hit) != 1:
                continue
            member = ('attr', ('name', next(iter(enums))), hit[0])
            eq = ('cmp', '==', s, member)
            return eq if x[1][2] == 'all' else ('un', 'not', eq)
        return None

    def _reduction_canon(self, x):
        """`V.any()` / `V.all()` / `V.bool()` where V is a bitwise combination (&, |, ^, ~) of vectors that all have the same declared
        width: bit k of V is one Boolean function f of bit k of each vector, so the reduction is determined by f.  The vector is
        rewritten in a canonical sum-of-minterms form (and `all()` as `~(~V).any()`), which makes De Morgan, distribution and
        absorption variants of one reduction equal.  With vectors of different widths these laws do not hold (the narrower operand
        is zero-extended *before* an outer `~`), so nothing is rewritten then."""
        if not (x[0] == 'call' and x[1][0] == 'attr' and x[1][2] in ('any', 'all', 'bool') and not x[2] and not x[3]):
            return None
        v = x[1][1]
        leaves = []

        def collect(e):
            if e[0] == 'nary' and e[1] in ('&', '|', '^'):
                return all(collect(y) for y in e[2])
            if e[0] == 'un' and e[1] == '~':
                return collect(e[2])
            if e[0] in ('attr', 'sig', 'sub', 'name'):
                if e not in leaves:
                    leaves.append(e)
                return True
            return False
        if not collect(v) or not (v[0] in ('nary', 'un')) or not (1 <= len(leaves) <= 4):
            return None
        ws = [self.width_of(l_) for l_ in leaves]
        if any(w is None for w in ws) or any(w != ws[0] for w in ws):
            return None
        order = sorted(leaves, key=ir.show)

        def ev(e, a):
            if e[0] == 'nary':
                vals = [ev(y, a) for y in e[2]]
                if e[1] == '&':
                    return all(vals)
                if e[1] == '|':
                    return any(vals)
                r = False
                for b_ in vals:
                    r ^= b_
                return r
            if e[0] == 'un':
                return not ev(e[2], a)
            return a[e]
        import itertools

        def canon(negate):
            terms = []
            for bits in itertools.product((False, True), repeat=len(order)):
                a = dict(zip(order, bits))
                val = ev(v, a)
                if (not val) if negate else val:
                    lits = tuple(l_ if a[l_] else ('un', '~', l_) for l_ in order)
                    terms.append(lits[0] if len(lits) == 1 else ('nary', '&', lits))
            if not terms:
                return None
            return terms[0] if len(terms) == 1 else ('nary', '|', tuple(terms))
        if x[1][2] in ('any', 'bool'):
            cv = canon(False)
            if cv is None:
                return ('const', 0)
            out = ('call', ('attr', cv, 'any'), (), ())
        else:
            cv = canon(True)
            if cv is None:
                return ('const', 1)
            out = ('un', '~', ('call', ('attr', cv, 'any'), (), ()))
        return out if out != x else None

    def _never_none_attrs(self):
        """Attributes of the component that every store in the class binds to the result of a call (an object created or requested
        there: a port, a register, a signal) -- never to None, a parameter or another name.  Where such an attribute exists it is
        not None."""
        if getattr(self, "_nn_attrs", None) is None:
            out, bad = set(), set()
            cls = self.fi.cls
            for k_ in ([cls] + self.idx.bases_of(cls)) if cls is not None else []:
                for fs in k_.methods.values():
                    for f_ in fs:
                        for st in ast.walk(f_.node):
                            tg = st.targets if isinstance(st, ast.Assign) else ([st.target] if isinstance(st, (ast.AugAssign, ast.AnnAssign)) else [])
                            for t in tg:
                                for t2 in (t.elts if isinstance(t, (ast.Tuple, ast.List)) else [t]):
                                    if isinstance(t2, ast.Attribute) and isinstance(t2.value, ast.Name) and t2.value.id == "self":
                                        v = getattr(st, "value", None)
                                        if isinstance(st, ast.Assign) and isinstance(v, ast.Call) and not isinstance(t, (ast.Tuple, ast.List)) and \
                                                not (isinstance(v.func, ast.Name) and v.func.id in ("getattr", "next", "dict.get")) and \
                                                not (isinstance(v.func, ast.Attribute) and v.func.attr in ("get", "pop")):
                                            out.add(t2.attr)
                                        else:
                                            bad.add(t2.attr)
            self._nn_attrs = out - bad
        return self._nn_attrs

    def _ctor_field(self, x):
        """`Cls(a=A, b=B).a` is A when Cls.__init__ stores its parameter unconditionally and `a` is the plain read-only
        property of that field (and the value stored is a function of the parameters only): a parameter read back from the
        object just constructed.  (The constructor may refuse its arguments; then nothing downstream is evaluated.)"""
        if not (x[0] == 'attr' and x[1][0] == 'call' and x[1][1][0] in ('name', 'attr')):
            return None
        call, nm = x[1], x[2]
        last = call[1][2] if call[1][0] == 'attr' else call[1][1]
        if not last[:1].isupper():
            return None
        try:
            cls = self.idx.resolve_class(call[1], self.fi.module, self.fi.cls)
        except Exception:
            return None
        if cls is None:
            return None
        init = cls.method("__init__")
        getter = None
        for k in [cls] + self.idx.bases_of(cls):
            g = k.method(nm)
            if g is not None:
                getter = g
                break
        if init is None or getter is None:
            return None
        body = [s for s in getter.node.body if not (isinstance(s, ast.Expr) and isinstance(s.value, ast.Constant))]
        is_prop = any(isinstance(dc, ast.Name) and dc.id == "property" for dc in getter.node.decorator_list)
        if not (is_prop and len(body) == 1 and isinstance(body[0], ast.Return) and isinstance(body[0].value, ast.Attribute) and
                isinstance(body[0].value.value, ast.Name) and body[0].value.value.id == "self"):
            return None
        field = body[0].value.attr
        if len(cls.methods.get(nm, ())) > 1:
            return None                                     # has a setter: the field may have been changed since
        try:
            ct = get_ctor(self.idx, cls)
        except Exception:
            return None
        st = ct.stores.get(f"self.{field}")
        if st is None or st[1]:
            return None
        a = init.node.args
        if a.vararg or a.kwarg:
            return None
        pos = [p.arg for p in a.posonlyargs + a.args][1:]
        defaults = dict(zip(reversed(pos), reversed(a.defaults)))
        for p, dflt in zip(a.kwonlyargs, a.kw_defaults):
            if dflt is not None:
                defaults[p.arg] = dflt
        names = pos + [p.arg for p in a.kwonlyargs]
        if any(v[0] in ('star', 'dstar') for v in call[2]) or any(k in (None, '**') for k, v in call[3]) or len(call[2]) > len(pos):
            return None
        bound = dict(zip(pos, call[2]))
        for k, v in call[3]:
            if k not in names or k in bound:
                return None
            bound[k] = v
        for n in names:
            if n not in bound:
                if n not in defaults or not isinstance(defaults[n], ast.Constant):
                    if n in defaults and ast.unparse(defaults[n]) == "frozenset()":
                        bound[n] = ir.from_ast(defaults[n], {})
                        continue
                    return None
                bound[n] = ('const', defaults[n].value)
        val = st[0]
        free = {y[1] for y in ir.walk(val) if y[0] == 'name'}
        builtins_ok = {"isinstance", "int", "max", "min", "len", "tuple", "frozenset", "exact_log2", "ceil_log2", "None"}
        if not free - builtins_ok <= set(names):
            return None
        return ir.subst(val, lambda y: bound.get(y[1]) if y[0] == 'name' and y[1] in bound else None)

    def width_of(self, e):
        """Width of a value where it can be read off: a slice with unit step, a declared member of this component, a local
        signal created with an explicit width.  None otherwise."""
        if e[0] == 'sub' and e[2][0] == 'slice' and e[2][3] in (('const', 1), ('const', None)):
            lo = e[2][1] if e[2][1] != ('const', None) else ('const', 0)
            hi = e[2][2]
            if hi == ('const', None):
                return None
            # word_select(k, w): [k*w : (k+1)*w]
            if hi[0] == 'nary' and hi[1] == '*' and lo[0] == 'nary' and lo[1] == '*':
                common = [f for f in hi[2] if f in lo[2]]
                for w_ in common:
                    rh = [f for f in hi[2] if f != w_]
                    rl = [f for f in lo[2] if f != w_]
                    if len(rh) == 1 and len(rl) == 1 and ir.norm(('bin', '-', rh[0], rl[0]), self.nctx) == ('const', 1):
                        return w_
            if hi[0] == 'nary' and hi[1] == '*' and lo == ('const', 0):
                pass
            return ir.norm(('bin', '-', hi, lo), self.nctx)
        if e[0] == 'sig' and e[1] in self.t.sigs:
            ctor = self.t.sigs[e[1]].ctor
            if ctor[0] == 'call' and ctor[1] == ('name', 'Signal') and ctor[2] and ctor[2][0][0] != 'call':
                return ir.norm(ctor[2][0], self.nctx)
            return None
        # <field>.port.r_data / w_data: FieldPort.Signature declares both with the port's shape
        if e[0] == 'attr' and e[2] in ('r_data', 'w_data') and e[1][0] == 'attr' and e[1][2] == 'port' and self._fieldport_data_is_shape():
            return ir.norm(ir.parse("Shape.cast(P.shape).width", {"P": e[1]}), self.nctx)
        try:
            return self.declared_width(e)
        except Exception:
            return None

    def _fieldport_data_is_shape(self):
        if not hasattr(self, "_fp_ok"):
            self._fp_ok = False
            try:
                sig = self.idx.find_func("FieldPort.Signature.__init__")
                self._fp_ok = all(any(isinstance(n, ast.Dict) and any(
                    isinstance(k, ast.Constant) and k.value == nm and isinstance(v_, ast.Call) and ast.unparse(v_.func) in ("In", "Out") and
                    len(v_.args) == 1 and ast.unparse(v_.args[0]) in ("self.shape", "shape", "self._shape") for k, v_ in zip(n.keys, n.values))
                    for n in ast.walk(sig.node)) for nm in ("r_data", "w_data"))
            except Exception:
                pass
        return self._fp_ok

    def _mask_to_mux(self, x):
        """X & s.replicate(n) with s one bit and n the width of X  ==  Mux(s, X, 0)."""
        if x[0] != 'nary' or x[1] != '&' or len(x[2]) != 2:
            return None
        for m_, v_ in ((x[2][0], x[2][1]), (x[2][1], x[2][0])):
            if m_[0] == 'call' and m_[1][0] == 'attr' and m_[1][2] == 'replicate' and len(m_[2]) == 1 and not m_[3] and self.w.bit(m_[1][1]):
                n = ir.norm(m_[2][0], self.nctx)
                if n == ir.norm(('call', ('name', 'len'), (v_,), ()), self.nctx):
                    return ('call', ('name', 'Mux'), (m_[1][1], v_, ('const', 0)), ())
                w_ = self.width_of(v_)
                if w_ is not None and w_ == ir.norm(n, self.nctx):
                    return ('call', ('name', 'Mux'), (m_[1][1], v_, ('const', 0)), ())
        return None

    def _last(self, x):
        """A loop index used after its loop denotes the last element: hi - 1 of a range, len(E) - 1 of a sequence."""
        if x[0] == 'last' and x[1][0] == 'idx':
            L = self.t.loops.get(x[1][1])
            if L is not None and not L.reversed:
                if L.kind == 'range':
                    return ('bin', '-', L.bounds[1], ('const', 1))
                if L.kind in ('enum', 'seq') and L.seq is not None:
                    return ('bin', '-', ('call', ('name', 'len'), (L.seq,), ()), ('const', 1))
        return None

    def show(self, e):
        return ir.show(self.norm(e))

    def parse(self, text, env=None):
        return self.norm(ir.parse(text, env or {}))

    def drivers_of(self, target, domain=None):
        """All drivers whose normalised target equals `target` (IR), any or given domain."""
        key = ir.show(self.norm(target))
        out = []
        for (dom, k), ds in self.groups.items():
            if k == key and (domain is None or dom == domain):
                out.extend(ds)
        return out

    def drivers_elsewhere(self, target):
        """Drivers of the same target shape under *another* generation loop (the target with its loop indices abstracted):
        the signal is driven, but in a loop whose index range the rule cannot identify with the one it follows."""
        def abstract(e):
            return ir.subst(e, lambda x: ('name', '<i>') if x[0] == 'idx' else (('name', '<item>') if x[0] == 'item' else None))
        want = abstract(self.norm(target))
        out = []
        for key, ds in self.groups.items():
            t = self.tir[key]
            if t != self.norm(target) and abstract(t) == want:
                out.extend(ds)
        if not out:
            # item-based spelling: for f in SEQ: f.x.eq(...)  against  SEQ[i].x
            tail = []
            e = self.norm(target)
            while e[0] == 'attr':
                tail.append(e[2])
                e = e[1]
            if e[0] == 'sub' and e[2][0] == 'idx' and tail:
                for key, ds in self.groups.items():
                    t, tl = self.tir[key], []
                    while t[0] == 'attr':
                        tl.append(t[2])
                        t = t[1]
                    if tl == tail and t[0] == 'item' and t[1] in self.t.loops:
                        Lp = self.t.loops[t[1]]
                        seqs = [self.norm(Lp.seq)] if getattr(Lp, "seq", None) is not None else []
                        it = self.norm(Lp.iter)
                        if e[1] in seqs or any(x == e[1] for x in ir.walk(it)):
                            out.extend(ds)
        return out

    def driven_inside_cat(self, target):
        """Drivers whose target is a concatenation (directly, or through a list filled by append) that has `target` among its
        parts: the signal is driven, through a form the per-signal rules do not take apart."""
        tn = self.norm(target)
        gen_free = ir.subst(tn, lambda x: ('name', '<i>') if x[0] in ('idx', 'item') else None)
        out = []
        for d_ in self.t.drivers:
            t = self.norm(d_.target)
            if not (t[0] == 'call' and t[1] == ('name', 'Cat')):
                continue
            parts = []
            for a in t[2]:
                if a[0] == 'listacc' and a[1] in self.t.lists:
                    parts.extend(self.norm(v) for v, g_, l_ in self.t.lists[a[1]].items)
                else:
                    parts.append(a)
            if any(ir.subst(p_, lambda x: ('name', '<i>') if x[0] in ('idx', 'item') else None) == gen_free for p_ in parts):
                out.append(d_)
        return out

    def domains_of(self, target):
        key = ir.show(self.norm(target))
        return {dom for (dom, k) in self.groups if k == key}

    def targets_matching(self, pred):
        """(domain, target IR, drivers) for every group whose target satisfies pred(IR)."""
        for key, ds in self.groups.items():
            t = self.tir[key]
            if pred(t):
                yield key[0], t, ds

    def overlapping(self, target):
        """Groups whose target is a strict part of / contains `target` (bit or slice of the same signal)."""
        tn = self.norm(target)
        out = []
        for key, ds in self.groups.items():
            t = self.tir[key]
            if t == tn:
                continue
            if _base_of(t) == _base_of(tn) and (ir.mentions(t, tn) or ir.mentions(tn, t)):
                out.append((key, t, ds))
        return out


def property_aliases(idx, cls):
    """self.<prop> -> self.<chain> for property getters that simply return an attribute chain of self."""
    out = {}
    if cls is None:
        return out
    for c in [cls] + idx.bases_of(cls):
        for name, fs in c.methods.items():
            for f in fs:
                if not f.is_property:
                    continue
                body = [s for s in f.node.body if not (isinstance(s, ast.Expr) and isinstance(s.value, ast.Constant))]
                if len(body) == 1 and isinstance(body[0], ast.Return) and body[0].value is not None:
                    v = ir.from_ast(body[0].value, {})
                    e = v
                    while e[0] == 'attr':
                        e = e[1]
                    if e == ('name', 'self') and v != ('name', 'self'):
                        out.setdefault(('attr', ('name', 'self'), name), v)
                    elif v[0] == 'tuple' and v[1] and all(x[0] == 'attr' and x[1] == ('name', 'self') for x in v[1]) and name.startswith("_"):
                        # a private record of attributes: return (self.a, self.b, ...)
                        out.setdefault(('attr', ('name', 'self'), name), v)
                elif body and isinstance(body[-1], ast.Return) and body[-1].value is not None and \
                        all(isinstance(s, ast.Assign) for s in body[:-1]) and len(f.params) == 1:
                    # a getter that unpacks a private record first:  a, _ = self._params; return a
                    try:
                        w = get_fn(idx, f)
                    except Exception:
                        continue
                    if len(w.t.returns) == 1 and not w.t.unsupported:
                        v = ir.norm(w.t.returns[0][0])
                        e = v
                        while e[0] in ('attr', 'sub'):
                            if e[0] == 'sub' and e[2][0] != 'const':
                                break
                            e = e[1]
                        if e == ('name', 'self') and v != ('name', 'self'):
                            out.setdefault(('attr', ('name', 'self'), name), v)
    return out


PURE_FUNCS = {"exact_log2", "ceil_log2", "max", "min", "len", "int", "bool", "abs"}


def constructor_facts(idx, cls, prop_aliases):
    """Facts established by __init__ that elaborate() may rely on, as rewrite rules:
      self._x            -> the pure arithmetic expression stored there (a cached ratio, width, ...)
      len(self.<port>.sel) -> data_width // granularity of the signature the port was declared with
    Constructor parameters that are stored verbatim (self._a = p) are written as self._a so both sides agree."""
    cc = get_ctor(idx, cls)
    param_to_attr = {}
    for key, (val, gen, ln) in cc.stores.items():
        if val[0] == 'name' and val[1] in cc.fi.params and key.startswith("self._") and key.count(".") == 1:
            param_to_attr[val] = ir.parse(key)

    def in_self_terms(e):
        return ir.norm(ir.subst(e, lambda x: param_to_attr.get(x)), ir.NormCtx(enums=idx.enums, aliases=prop_aliases))

    def pure(e):
        for x in ir.walk(e):
            if x[0] in ('obj', 'sig', 'opaque', 'fstr', 'gen', 'dict', 'list', 'tuple', 'set'):
                return False
            if x[0] == 'call' and not (x[1][0] == 'name' and x[1][1] in PURE_FUNCS):
                return False
        return any(x[0] in ('bin', 'lin', 'nary', 'call', 'ceildiv') for x in ir.walk(e))
    out = {}
    for key, (val, gen, ln) in cc.stores.items():
        if key.startswith("self._") and key.count(".") == 1 and pure(val):
            out[ir.parse(key)] = in_self_terms(val)
    # a handle that exists only in some configurations: self._x = <object> if c else None  ==>  (self._x is None) == not c
    for key, (val, gen, ln) in cc.stores.items():
        if key.startswith("self._") and key.count(".") == 1 and val[0] == 'phi' and not gen:
            c_, a_, b_ = val[1], val[2], val[3]
            if b_ == ('const', None) and a_[0] == 'call':
                out[('cmp', 'is', ir.parse(key), ('const', None))] = in_self_terms(('un', 'not', c_))
            elif a_ == ('const', None) and b_[0] == 'call':
                out[('cmp', 'is', ir.parse(key), ('const', None))] = in_self_terms(c_)
    for name, decls in idx.members(cls).items():
        flow, shape, conds, ln, arr = decls[0]
        # the shape as the constructor computed it (locals substituted)
        shape_ir = None
        for e, gen, dsl_, ln2 in cc.t.calls:
            for x in ir.walk(e if e[0] != 'store' else e[2]):
                if x[0] == 'dict':
                    for k_, v_ in x[1]:
                        if k_ == ('const', name) and v_[0] == 'call' and v_[2]:
                            shape_ir = v_[2][0]
        if shape_ir is not None and shape_ir[0] == 'call':
            dw, gr = kwarg(shape_ir, 'data_width'), kwarg(shape_ir, 'granularity')
            if dw is not None and gr is not None:
                port = ('attr', ('name', 'self'), name)
                out[('call', ('name', 'len'), (('attr', port, 'sel'),), ())] = in_self_terms(('bin', '//', dw, gr))
    return out


def log2_arg(c, e):
    """X when e is a base-2 logarithm of X written in one of the forms that agree on powers of two:
    exact_log2(X), X.bit_length() - 1, (X - 1).bit_length().  None otherwise."""
    e = c.norm(e)
    if e[0] == 'call' and e[1] == ('name', 'exact_log2') and len(e[2]) == 1:
        return e[2][0]
    if e[0] == 'lin' and e[1] == -1 and len(e[2]) == 1 and e[2][0][1] == 1:
        t = e[2][0][0]
        if t[0] == 'call' and t[1][0] == 'attr' and t[1][2] == 'bit_length' and not t[2]:
            return t[1][1]
    if e[0] == 'call' and e[1][0] == 'attr' and e[1][2] == 'bit_length' and not e[2]:
        r = e[1][1]
        if r[0] == 'lin' and r[1] == -1 and len(r[2]) == 1 and r[2][0][1] == 1:
            return r[2][0][0]
    return None


def _base_of(e):
    while e[0] == 'sub':
        e = e[1]
    if e[0] == 'call' and e[1][0] == 'attr' and e[1][2] in ('word_select', 'bit_select'):
        return _base_of(e[1][1])
    return e


def get_ctx(idx, spec, extra_bits=()):
    fi = idx.find_func(spec) if isinstance(spec, str) else spec
    key = (id(idx), fi.site, tuple(extra_bits))
    if key not in _TCACHE:
        _TCACHE[key] = Ctx(idx, fi, extra_bits)
    return _TCACHE[key]


def vacuous_size_guards(c, d, N):
    """Generation-time guards of driver `d` of the form `N > k` / `N >= k` / `k < N` ... (N: the size expression, normalised)
    that change nothing: for every size the guard excludes, the loop nest around the driver has no iteration at all, so the
    statement is not emitted with or without the guard.  Decided by running the *loop bounds* (integer arithmetic over N and the
    enclosing loop indices) for each excluded size.  Returns the set of such frames."""
    import operator
    ops = {'<': operator.lt, '<=': operator.le, '>': operator.gt, '>=': operator.ge, '==': operator.eq, '!=': operator.ne}
    N = c.norm(N)

    class Unknown(Exception):
        pass

    def ev(e, env, n):
        e = c.norm(e)
        if e == N:
            return n
        k = e[0]
        if k == 'const' and isinstance(e[1], int) and not isinstance(e[1], bool):
            return e[1]
        if k == 'idx' and e[1] in env:
            return env[e[1]]
        if k == 'lin':
            return e[1] + sum(co * ev(t, env, n) for t, co in e[2])
        if k == 'bin' and e[1] in ('+', '-', '*', '//', '%'):
            a, b = ev(e[2], env, n), ev(e[3], env, n)
            if e[1] in ('//', '%') and b == 0:
                raise Unknown()
            return {'+': a + b, '-': a - b, '*': a * b, '//': a // b if b else 0, '%': a % b if b else 0}[e[1]]
        if k == 'call' and e[1] == ('name', 'len') and len(e[2]) == 1:
            inner = c.norm(e[2][0])
            if ('call', ('name', 'len'), (inner,), ()) == N or c.norm(('call', ('name', 'len'), (inner,), ())) == N:
                return n
        raise Unknown()

    def iterations(frames, env, n):
        """Does the loop nest `frames` (outermost first) have at least one iteration for size n?"""
        if not frames:
            return True
        L = c.t.loops.get(frames[0])
        if L is None:
            raise Unknown()
        if L.kind == 'range' and L.bounds is not None:
            lo, hi = ev(L.bounds[0], env, n), ev(L.bounds[1], env, n)
            rng = range(lo, hi)
        elif L.seq is not None and c.norm(('call', ('name', 'len'), (c.norm(L.seq),), ())) == N:
            rng = range(0, n)
        else:
            raise Unknown()
        for v in rng:
            if iterations(frames[1:], {**env, L.id: v}, n):
                return True
        return False

    out = set()
    loops = [fr[1] for fr in d.gen if fr[0] == 'for']
    for fr in d.gen:
        if fr[0] != 'pyif':
            continue
        cn = c.norm(fr[1])
        if cn[0] != 'cmp' or cn[1] not in ops:
            continue
        excluded = None
        for a, b, flip in ((cn[2], cn[3], False), (cn[3], cn[2], True)):
            if a == N and b[0] == 'const' and isinstance(b[1], int) and not isinstance(b[1], bool):
                f = (lambda n, b=b, flip=flip: ops[cn[1]](b[1], n) if flip else ops[cn[1]](n, b[1]))
                vals = [n for n in range(0, 66) if bool(f(n)) != bool(fr[2])]
                # the guard must exclude an initial segment of sizes only (a lower bound on the size)
                if vals and vals == list(range(0, len(vals))) and len(vals) <= 8:
                    excluded = vals
        if not excluded:
            continue
        # loops inside the guard and loops outside of it both count: the statement needs an iteration of each
        try:
            if not any(iterations(loops, {}, n) for n in excluded) and loops:
                out.add(fr)
        except Unknown:
            pass
    return out


def require_supported(rep, rule, c):
    """Unsupported constructs inside an anchored elaborate() make the whole pack undecided."""
    ok = True
    for ln, why in c.t.unsupported:
        rep.unk(rule, c.fi.site, f"unsupported construct", f"line {ln}: {why}")
        ok = False
    if getattr(c.t, "zipped_loops", None):
        rep.assume("A8")
    return ok


def check_dl(rep, rule, c, what, drivers, default, table, env=None, assume=None, include_gen=True):
    """Compare the decision list of `drivers` with a role table.

    table: list of (guard text|IR, value text|IR), highest priority first.  default: dl.HOLD or IR/text."""
    env = env or {}

    def P(x):
        if isinstance(x, str):
            return c.parse(x, env)
        return x if x[0] == 'formula' else c.norm(x)
    tab = [(P(g), P(v)) for g, v in table]
    dflt = default if default == dl.HOLD else P(default)
    why = order_dependent(c, drivers)
    if why:
        rep.unk(rule, c.fi.site, what, why)
        return False
    try:
        got = dl.build(c.eng, drivers, dflt, include_gen)
        want = dl.expected(c.eng, tab, dflt)
        asm = None if assume is None else (assume[1] if not isinstance(assume, str) and assume[0] == 'formula' else c.eng.cond(P(assume)))
        eq, rows, wit = dl.compare(c.eng, got, want, asm)
    except Undecided as u:
        rep.unk(rule, c.fi.site, what, str(u))
        return False
    rep.count("truth_table_rows", rows)
    if eq:
        rep.ok(rule, c.fi.site, what, f"decision list equals role table on {rows} valuation(s)",
               nontrivial=rows >= 2, rows=rows, found=got.show())
        return True
    rep.bad(rule, c.fi.site, what, f"decision function differs from the role table: {wit}; found {got.show()} "
            f"expected {want.show()}", lines=sorted({d.lineno for d in drivers}))
    return False


def _loops_of(c, e):
    """Generation loops an expression depends on (loop variables, and the birth context of local signals)."""
    out = set(dl.loops_in(e))
    for x in ir.walk(e):
        if x[0] == 'sig' and x[1] in c.t.sigs:
            out |= {fr[1] for fr in c.t.sigs[x[1]].gen if fr[0] == 'for'}
        elif x[0] in ('carry', 'final') and x[1] in c.t.folds:
            out.add(c.t.folds[x[1]].loop)
        elif x[0] == 'acc' and x[1] in c.t.accs:
            out |= {fr[1] for fr in c.t.accs[x[1]].home if fr[0] == 'for'}
    return out


def order_dependent(c, drivers):
    """A driver replicated by a loop its target does not depend on is only order-independent when the copies
    are identical or mutually exclusive (a Case pattern that depends on that loop, A6)."""
    for d in drivers:
        t = c.norm(d.target)
        free = {fr[1] for fr in d.gen if fr[0] == 'for'} - _loops_of(c, t)
        for L in free:
            # a generation condition `A(L) == E` (E independent of L) pins A to one value in every active
            # iteration, so iterations that pass it are indistinguishable as far as A is concerned
            pinned = set()
            for fr in d.gen:
                if fr[0] == 'pyif' and fr[2]:
                    cn = c.norm(fr[1])
                    if cn[0] == 'cmp' and cn[1] == '==':
                        terms = [t for t, _ in cn[2][2]] if cn[2][0] == 'lin' else [cn[2]]
                        dep = [t for t in terms if L in _loops_of(c, t)]
                        if len(dep) == 1 and L not in _loops_of(c, cn[3]):
                            pinned.add(dep[0])

            def unpin(e):
                return ir.subst(e, lambda x: ('const', '<pinned>') if x in pinned else None)
            exprs = [unpin(c.norm(d.value))]
            for fr in d.dsl:
                if fr[0] in ('if', 'elif'):
                    exprs.append(unpin(c.norm(fr[1])))
            for fr in d.gen:
                if fr[0] == 'pyif':
                    exprs.append(unpin(c.norm(fr[1])))
            uses = any(L in _loops_of(c, e) for e in exprs)
            excl = any(fr[0] == 'case' and any(L in _loops_of(c, c.norm(p)) for p in fr[2]) for fr in d.dsl)
            # `with m.If(E == <index of this iteration>)` with E the same in every iteration: at most one iteration is active
            for fr in d.dsl:
                if fr[0] == 'if':
                    cn = c.norm(fr[1])
                    if cn[0] == 'cmp' and cn[1] == '==' and cn[3] == ('const', 0) and cn[2][0] == 'lin':
                        terms = dict(cn[2][2])
                        if terms.get(('idx', L)) in (1, -1) and all(L not in _loops_of(c, t_) for t_ in terms if t_ != ('idx', L)):
                            excl = True
            if uses and not excl:
                return (f"driver at line {d.lineno} is replicated by loop {ir.show(c.t.loops[L].iter)} that its target does not "
                        "depend on, with an iteration-dependent value or guard and no exclusive Case: emission order matters")
    return None


def single_unconditional(rep, rule, c, what, target, domain, value, env=None):
    """target has, in effect, the unconditional value `value` in `domain` (decision function, not statement count)."""
    ds = c.drivers_of(target)
    doms = {d.domain for d in ds}
    if not ds and c.overlapping(target):
        rep.unk(rule, c.fi.site, what, f"{c.show(target)} is " + "driven bit by bit / slice by slice; the rule compares the signal as a whole and does not assemble it")
        return False
    if not ds:
        rep.bad(rule, c.fi.site, what, f"{c.show(target)} is never driven")
        return False
    if doms != {domain}:
        rep.bad(rule, c.fi.site, what, f"{c.show(target)} is driven in domain(s) {sorted(doms)}, expected {domain}",
                lines=sorted({d.lineno for d in ds}))
        return False
    v = c.parse(value, env or {}) if isinstance(value, str) else value
    return check_dl(rep, rule, c, what, ds, dl.HOLD if domain != 'comb' else ('const', 0), [("1", v)], env)


def func_site(fi):
    return fi.site


def find_init_assign(cls, attr, idx=None):
    """ast.Assign of `self.<attr> = ...` in cls.__init__ (first), or in a base class's __init__; or None."""
    init = cls.method("__init__")
    if init is None:
        if idx is not None:
            for b in idx.bases_of(cls):
                r = find_init_assign(b, attr)
                if r is not None:
                    return r
        return None
    for st in ast.walk(init.node):
        if isinstance(st, ast.Assign) and len(st.targets) == 1:
            t = st.targets[0]
            if isinstance(t, ast.Attribute) and isinstance(t.value, ast.Name) and t.value.id == "self" \
                    and t.attr == attr:
                return st
    if idx is not None:
        for b in idx.bases_of(cls):
            r = find_init_assign(b, attr)
            if r is not None:
                return r
    return None


class CtorCtx(Ctx):
    """The same symbolic walk applied to a constructor: gives local aliases, stores to self and calls."""

    def __init__(self, idx, fi, no_inline=()):
        super().__init__(idx, fi, no_inline=no_inline)
        self.stores = {}
        for c in self.t.calls:
            e = c[0]
            if e[0] == 'store':
                key = ir.show(self.norm(e[1]))
                val = self.norm(e[2])
                prev = self.stores.get(key)
                if prev is not None:
                    # the two arms of one `if`: self.x = A under c, self.x = B under not c  ->  phi(c, A, B)
                    g0, g1 = prev[1], c[1]
                    if len(g0) == len(g1) and g0[:-1] == g1[:-1] and g0 and g0[-1][0] == 'pyif' and g1[-1][0] == 'pyif' and \
                            g0[-1][1] == g1[-1][1] and g0[-1][2] != g1[-1][2]:
                        a_, b_ = (prev[0], val) if g0[-1][2] else (val, prev[0])
                        self.stores[key] = (self.norm(('phi', g0[-1][1], a_, b_)), g0[:-1], c[3])
                        continue
                self.stores[key] = (val, c[1], c[3])

    def stored(self, text):
        r = self.stores.get(ir.show(self.parse(text)))
        return None if r is None else r[0]

    def calls_named(self, attr):
        """(IR, gen frames, lineno) of call statements / sub-calls whose function is `<x>.attr` or `attr`."""
        out = []
        for e, gen, dsl_, ln in self.t.calls:
            if e[0] == 'assigned':
                continue
            for x in ir.walk(e if e[0] != 'store' else e[2]):
                if x[0] == 'call' and (x[1][0] == 'attr' and x[1][2] == attr or x[1] == ('name', attr)):
                    out.append((self.norm(x), gen, ln))
        # calls whose result was only bound to names and that no other statement mentions
        seen = {x for x, g_, l_ in out}
        for e, gen, dsl_, ln in self.t.calls:
            if e[0] == 'assigned':
                x = e[1]
                if x[0] == 'call' and (x[1][0] == 'attr' and x[1][2] == attr or x[1] == ('name', attr)) and self.norm(x) not in seen:
                    out.append((self.norm(x), gen, ln))
                    seen.add(self.norm(x))
        return out


def get_fn(idx, spec, kind=None, no_inline=()):
    """Symbolic walk of an arbitrary function (stores, calls, returns, local aliases)."""
    fi = idx.find_func(spec, kind) if isinstance(spec, str) else spec
    key = (id(idx), fi.site, 'fn', kind, tuple(no_inline))
    if key not in _TCACHE:
        _TCACHE[key] = CtorCtx(idx, fi, no_inline)
    return _TCACHE[key]


def get_ctor(idx, cls_spec):
    cls = idx.find_class(cls_spec) if isinstance(cls_spec, str) else cls_spec
    fi = cls.method("__init__")
    if fi is None:
        from ..core.report import AnchorMissing
        raise AnchorMissing(f"{cls.site} has no __init__")
    key = (id(idx), fi.site, 'ctor')
    if key not in _TCACHE:
        _TCACHE[key] = CtorCtx(idx, fi)
    return _TCACHE[key]


def kwarg(call, name, pos=None):
    """Value of keyword (or positional) argument of a ('call', ...) IR."""
    for k, v in call[3]:
        if k == name:
            return v
    if pos is not None and len(call[2]) > pos:
        return call[2][pos]
    return None


def show_roles(c, e, env):
    """Print an expression with role names in place of the (run-dependent) loop items they are bound to."""
    e = c.norm(e)
    inv = sorted(((c.norm(v), k) for k, v in env.items()), key=lambda kv: -len(ir.show(kv[0])))

    def f(x):
        for v, k in inv:
            if x == v:
                return ('name', k)
        return None
    return ir.show(ir.subst(e, f))


# ---- symbolic refusal conditions --------------------------------------------------------------------------
def _passed_type_guards(c):
    """{line of a raise statement: [isinstance(x, T) IR, ...]} for the guard clauses `if not isinstance(x, T): raise ...` (no else)
    that precede it in its own block or an enclosing one: on the way to that raise the test was false."""
    out = {}

    def walk(stmts, known):
        known = list(known)
        for s in stmts:
            if isinstance(s, ast.Raise):
                out[s.lineno] = list(known)
            for field in ("body", "orelse", "finalbody"):
                blk = getattr(s, field, None)
                if isinstance(blk, list) and blk and isinstance(blk[0], ast.stmt) and not isinstance(s, (ast.FunctionDef, ast.AsyncFunctionDef, ast.ClassDef)):
                    walk(blk, known)
            if isinstance(s, ast.If) and not s.orelse and s.body and isinstance(s.body[-1], ast.Raise):
                t = s.test
                if isinstance(t, ast.UnaryOp) and isinstance(t.op, ast.Not) and isinstance(t.operand, ast.Call) and \
                        isinstance(t.operand.func, ast.Name) and t.operand.func.id == "isinstance" and len(t.operand.args) == 2 and \
                        isinstance(t.operand.args[0], ast.Name) and isinstance(t.operand.args[1], ast.Name) and t.operand.args[1].id == "int":
                    # only while the name is not rebound afterwards
                    nm = t.operand.args[0].id
                    if not any(isinstance(n, ast.Name) and n.id == nm and isinstance(n.ctx, ast.Store) for n in ast.walk(c.fi.node)):
                        known.append(c.norm(ir.from_ast(t.operand, {})))
    walk(c.fi.node.body, [])
    return out


def raise_sites(c, depth=1):
    """[(path-condition IRs [(cond, polarity)], exc, loop ids, lineno, via)] for every `raise` of the walked function and
    of same-class helpers it calls as plain statements (one level), with the helper's parameters substituted."""
    out = []
    passed = _passed_type_guards(c)
    for exc, gen, ln in c.t.raises:
        conds = [(c.norm(fr[1]), fr[2]) for fr in gen if fr[0] == 'pyif']
        # type knowledge from earlier guard clauses of the same block chain: past `if not isinstance(x, int): raise`, x is an int
        conds = [(t_, True) for t_ in passed.get(ln, ())] + conds
        loops = [fr[1] for fr in gen if fr[0] == 'for']
        out.append((conds, exc, loops, ln, None))
    if depth > 0 and c.fi.cls is not None:
        for e, gen, dsl_, ln in c.t.calls:
            if e[0] != 'call' or e[1][0] != 'attr' or e[1][1] != ('name', 'self'):
                continue
            target = c.idx.lookup_method(c.fi.cls, e[1][2])
            if target is None or target.node is c.fi.node:
                continue
            h = get_fn(c.idx, target)
            params = [p for p in target.params if p != 'self']
            binding = dict(zip(params, e[2]))
            for k, v in e[3]:
                binding[k] = v

            def sub(x, binding=binding):
                return ir.subst(x, lambda y: binding.get(y[1]) if y[0] == 'name' and y[1] in binding else None)
            outer = [(c.norm(fr[1]), fr[2]) for fr in gen if fr[0] == 'pyif']
            for conds, exc, loops, hln, _ in raise_sites(h, depth - 1):
                out.append((outer + [(c.norm(sub(cd)), p) for cd, p in conds], exc, [], ln, target.site))
    return out


def _is_int_test(e):
    """isinstance(X, int) -> X"""
    if e[0] == 'call' and e[1] == ('name', 'isinstance') and len(e[2]) == 2 and e[2][1] == ('name', 'int'):
        return e[2][0]
    return None


def int_canon(e, ints=frozenset()):
    """Comparisons of an *integer* with a constant have one form: x < K is not (K-1 < x).  x is known to be an integer
    inside `not isinstance(x, int) or ...` (the other disjuncts are only evaluated for integers) and inside
    `isinstance(x, int) and ...`.  So `x < 1` and `x <= 0` are the same refusal when both sit behind the type test."""
    if e[0] == 'or':
        here = {x[2] for x in e[1] if x[0] == 'un' and x[1] == 'not' and _is_int_test(x[2]) is not None}
        here = frozenset(_is_int_test(x) for x in here) | ints
        return ('or', tuple(int_canon(x, here) for x in e[1]))
    if e[0] == 'and':
        here = frozenset(_is_int_test(x) for x in e[1] if _is_int_test(x) is not None) | ints
        return ('and', tuple(int_canon(x, here) for x in e[1]))
    if e[0] == 'un' and e[1] == 'not':
        return ('un', 'not', int_canon(e[2], ints))
    if e[0] == 'phi':
        # a choice between conditions (an if/elif chain that selects which refusal applies): the else branch is only
        # reached when the test was false, so a `not isinstance(x, int) or ...` test makes x an integer there
        test = int_canon(e[1], ints)
        past = ints
        if e[1][0] == 'or':
            past = ints | frozenset(_is_int_test(x[2]) for x in e[1][1] if x[0] == 'un' and x[1] == 'not' and _is_int_test(x[2]) is not None)
        elif e[1][0] == 'un' and e[1][1] == 'not' and _is_int_test(e[1][2]) is not None:
            past = ints | {_is_int_test(e[1][2])}
        # ... and the then branch only when it was true: `E if isinstance(x, int) else F` evaluates E for integers only
        then = ints
        if _is_int_test(e[1]) is not None:
            then = ints | {_is_int_test(e[1])}
        elif e[1][0] == 'and':
            then = ints | frozenset(_is_int_test(x) for x in e[1][1] if _is_int_test(x) is not None)
        return ('phi', test, int_canon(e[2], then), int_canon(e[3], past))
    if e[0] == 'cmp' and e[1] == '<' and e[2] in ints and e[3][0] == 'const' and isinstance(e[3][1], int) and not isinstance(e[3][1], bool):
        return ('un', 'not', ('cmp', '<', ('const', e[3][1] - 1), e[2]))
    return e


def _formula(c, conds):
    parts = []
    ints = set()
    for cd, pol in conds:
        x = _is_int_test(cd)
        if x is not None and pol:
            ints.add(x)
        if cd[0] == 'un' and cd[1] == 'not' and _is_int_test(cd[2]) is not None and not pol:
            ints.add(_is_int_test(cd[2]))               # we are past `if not isinstance(x, int): raise`
    for cd, pol in conds:
        f = c.eng.cond(c.norm(int_canon(c.norm(cd), frozenset(ints))))
        parts.append(f if pol else dl.f_not(f))
    return dl.f_and(*parts)


def literal_loop(c, values):
    """Element IR of a loop over a literal collection holding exactly `values` (e.g. {"err", "rty"}), or None."""
    for L in c.t.loops.values():
        it = c.norm(L.iter)
        if it[0] in ('set', 'tuple', 'list') and sorted(x[1] for x in it[1] if x[0] == 'const') == sorted(values) and \
                len(it[1]) == len(values):
            if L.kind == 'seq':
                return ('sub', L.seq, ('idx', L.id)), L.id
            return ('item', L.id, ()), L.id
    return None, None


def refuses(c, cond_texts, exc=None, env=None, loop_values=None):
    """Is there a raise (of type exc) whose path condition is equivalent to one of cond_texts?

    Returns (True/False, detail).  Conditions are compared as Boolean functions by truth table, so De Morgan, operand
    order, nesting of ifs, `continue`-style guards and extraction into a same-class helper make no difference."""
    env = dict(env or {})
    lid = None
    if loop_values is not None:
        elem, lid = literal_loop(c, loop_values)
        if elem is None:
            # the same collection traversed by a comprehension (next(... for x in {...} if ...), any(...)): not followed
            for n in ast.walk(c.fi.node):
                if isinstance(n, ast.comprehension) and isinstance(n.iter, (ast.Set, ast.Tuple, ast.List)) and \
                        sorted(e.value for e in n.iter.elts if isinstance(e, ast.Constant)) == sorted(loop_values):
                    return None, f"the collection {sorted(loop_values)} is traversed by a comprehension (next / any), which the rule does not follow"
            # the loop may have been unrolled (a literal tuple / a propagated constant table): then every value must be refused on its own
            results = []
            for val in sorted(loop_values):
                e2 = dict(env)
                e2["v"] = ('const', val)
                results.append(refuses(c, cond_texts, exc, e2, None))
            if all(r[0] for r in results):
                return True, f"one refusal per value of {sorted(loop_values)} (unrolled loop): " + results[0][1]
            if any(r[0] is None for r in results):
                return None, next(r[1] for r in results if r[0] is None)
            return False, f"no loop over the literal collection {sorted(loop_values)}"
        env["v"] = elem
    wants = []
    for t in ([cond_texts] if isinstance(cond_texts, str) else cond_texts):
        wants.append(c.eng.cond(c.norm(int_canon(c.parse(t, env)))))
    if not hasattr(c, "_documented"):
        c._documented = []
    c._documented.append((wants, lid, ([cond_texts] if isinstance(cond_texts, str) else list(cond_texts))[0]))
    sites = []
    for conds, e, loops, ln, via in raise_sites(c):
        if lid is not None and lid not in loops and via is None:
            continue
        try:
            sites.append((_formula(c, conds), e, ln, via))
        except Undecided:
            continue
    anyraise = dl.f_or(*[f for f, e, ln, via in sites]) if sites else dl.F
    undecided = [False]

    def decidable(f):
        try:
            dl.implies(c.eng, f, f)
            return True
        except Undecided:
            return False
    for w in wants:
        try:
            # (1) whenever the condition holds, the call is refused (by this or an earlier refusal)
            try:
                covered = dl.implies(c.eng, w, anyraise)[0]
            except Undecided:
                # some other refusal tests something the engine cannot evaluate: the refusals it can evaluate are a subset
                # of all refusals, so being covered by them is enough
                sites = [s for s in sites if decidable(s[0])]
                try:
                    sub = [s[0] for s in sites]
                    covered = dl.implies(c.eng, w, dl.f_or(*sub) if sub else dl.F)[0]
                except Undecided:
                    # still too entangled: keep only the refusals that are comparable with this condition on their own
                    rel = []
                    for s in sites:
                        try:
                            if dl.implies(c.eng, s[0], w)[0] or dl.implies(c.eng, w, s[0])[0]:
                                rel.append(s)
                        except Undecided:
                            pass
                    sites = rel
                    sub = [s[0] for s in sites]
                    covered = dl.implies(c.eng, w, dl.f_or(*sub) if sub else dl.F)[0]
            if not covered:
                continue
            # (2) a raise of the promised type exists whose path condition entails the condition
            for f, e, ln, via in sites:
                if (exc is None or e == exc) and f != dl.F and dl.implies(c.eng, f, w)[0] and not dl.equivalent(c.eng, f, dl.F)[0]:
                    return True, f"raise {e} at line {ln}" + (f" (in {via})" if via else "")
            # one raise statement that serves several refusals (its condition is a choice between them): it fires whenever
            # this refusal's condition holds, and it is not an unconditional raise
            for f, e, ln, via in sites:
                if (exc is None or e == exc) and f not in (dl.F, dl.T) and dl.implies(c.eng, w, f)[0] and \
                        not dl.equivalent(c.eng, f, dl.T)[0]:
                    return True, f"raise {e} at line {ln} (shared with other refusals)" + (f" (in {via})" if via else "")
        except Undecided:
            undecided[0] = True
            continue
    if undecided[0]:
        return None, f"a refusal condition of {c.fi.qual} is outside what the decision engine evaluates"
    return False, f"no `raise {exc or ''}` is guarded by a condition equivalent to `{cond_texts if isinstance(cond_texts, str) else cond_texts[0]}`"


def _arith_atoms(c, formula):
    """(free names, text) of the atoms of a formula that contain non-linear integer arithmetic (%, //, *)."""
    out = []
    for a in dl.f_atoms(formula, set()):
        e = c.eng.atom_ir.get(a)
        if e is None or e[0] in ('caseatom', 'defaultatom'):
            continue
        if any(x[0] == 'bin' and x[1] in ('%', '//', '**', '<<', '>>') or x[0] == 'nary' and x[1] in ('*', '&', '|', '^') or
               x[0] == 'ceildiv' or (x[0] == 'call' and x[1][0] == 'attr' and x[1][2] in ('bit_length', 'bit_count', 'count')) or
               (x[0] == 'call' and x[1] in (('name', 'bin'), ('name', 'exact_log2'), ('name', 'ceil_log2'), ('name', 'log2'), ('name', 'divmod')))
               for x in ir.walk(e)):
            names = frozenset(x[1] if x[0] == 'name' else x[2] for x in ir.walk(e)
                              if x[0] == 'name' or (x[0] == 'attr' and x[1] == ('name', 'self'))) - \
                frozenset({"exact_log2", "ceil_log2", "log2", "max", "min", "len", "bin", "int", "isinstance", "divmod", "abs"})
            ops = tuple(sorted(str(x[1]) if x[0] in ('bin', 'nary', 'cmp') else ('ceildiv' if x[0] == 'ceildiv' else
                                                                                (x[1][2] if x[1][0] == 'attr' else x[1][1]))
                               for x in ir.walk(e) if x[0] in ('bin', 'nary', 'cmp', 'ceildiv') or
                               (x[0] == 'call' and x[1][0] == 'attr' and x[1][2] in ('bit_length', 'bit_count', 'count')) or
                               (x[0] == 'call' and x[1] in (('name', 'bin'), ('name', 'exact_log2'), ('name', 'ceil_log2'), ('name', 'log2')))))
            out.append((names, a, ops))
    return out


def check_refusal(rep, rule, c, what, cond_texts, exc, env=None, loop_values=None):
    ok, detail = refuses(c, cond_texts, exc, env, loop_values)
    if not ok:
        c._refusal_gap = True                           # some documented refusal was not found as such: an unmatched raise may be it
    if ok is None:
        rep.unk(rule, c.fi.site, what, detail)
        return False
    if not ok:
        # the refusal may sit in a private helper that the analysis could not open (it defines a local function, is a generator,
        # uses try / with ...): then "no such raise here" says nothing
        try:
            idx_ = c.idx if hasattr(c, "idx") else None
            fi_ = c.fi
            for call in ast.walk(fi_.node):
                if not isinstance(call, ast.Call):
                    continue
                h = None
                if isinstance(call.func, ast.Attribute) and isinstance(call.func.value, ast.Name) and call.func.value.id in ("self", "cls") and \
                        fi_.cls is not None and call.func.attr.startswith("_") and not call.func.attr.startswith("__") and idx_ is not None:
                    h = idx_.lookup_method(fi_.cls, call.func.attr)
                elif isinstance(call.func, ast.Name) and call.func.id.startswith("_") and idx_ is not None:
                    h = idx_.resolve_function(fi_.module, call.func.id)
                if h is not None and h.node is not fi_.node and any(
                        isinstance(r, ast.Raise) and r.exc is not None and (exc is None or exc in ast.unparse(r.exc)[:len(exc) + 2])
                        for r in ast.walk(h.node)) and \
                        any(isinstance(n_, (ast.Yield, ast.YieldFrom, ast.Try, ast.With, ast.While, ast.Lambda)) or
                            (isinstance(n_, ast.FunctionDef) and n_ is not h.node) for n_ in ast.walk(h.node)):
                    rep.unk(rule, c.fi.site, what, f"{detail}; but {h.qual}, which this function calls and which raises {exc or 'exceptions'}, "
                            "could not be opened (local function / generator / try / with / while inside): the refusal may be there")
                    return False
        except Exception:
            pass
        # the refusal is decided by the *value* a private helper hands back (a message or None, the first objection of a generator):
        # `msg = self._mismatch(x)` / `if msg is not None: raise ValueError(msg)`
        try:
            binds_ = {}
            for a_ in ast.walk(c.fi.node):
                if isinstance(a_, ast.Assign) and len(a_.targets) == 1 and isinstance(a_.targets[0], ast.Name):
                    binds_.setdefault(a_.targets[0].id, []).append(a_.value)

            def helper_call(e_):
                for x in ast.walk(e_):
                    if isinstance(x, ast.Call):
                        fn_ = x.func
                        nm_ = fn_.attr if isinstance(fn_, ast.Attribute) else (fn_.id if isinstance(fn_, ast.Name) else "")
                        if nm_.startswith("_") and not nm_.startswith("__"):
                            return nm_
                return None
            for r_ in ast.walk(c.fi.node):
                if not isinstance(r_, ast.If) or not any(isinstance(y, ast.Raise) for y in r_.body):
                    continue
                # the *verdict* of a helper: the test is the helper's value itself (a call, a name bound to one, `x is not None`, `not x`,
                # and / or of those) -- not an arithmetic comparison that merely uses a number a helper computed
                def verdict_parts(t_):
                    if isinstance(t_, ast.BoolOp):
                        return [y for v_ in t_.values for y in verdict_parts(v_)]
                    if isinstance(t_, ast.UnaryOp) and isinstance(t_.op, ast.Not):
                        return verdict_parts(t_.operand)
                    if isinstance(t_, ast.Compare) and len(t_.ops) == 1 and isinstance(t_.ops[0], (ast.Is, ast.IsNot)) and \
                            isinstance(t_.comparators[0], ast.Constant) and t_.comparators[0].value is None:
                        return verdict_parts(t_.left)
                    if isinstance(t_, (ast.Name, ast.Call)):
                        return [t_]
                    return []
                parts_ = verdict_parts(r_.test)
                names_ = [x.id for x in parts_ if isinstance(x, ast.Name)]
                via_ = next((helper_call(x) for x in parts_ if isinstance(x, ast.Call) and helper_call(x)), None) or \
                    next((helper_call(v_) for n_ in names_ for v_ in binds_.get(n_, []) if helper_call(v_)), None)
                if via_:
                    rep.unk(rule, c.fi.site, what, f"{detail}; but a raise of this function is decided by what the helper `{via_}` returns "
                            "(a message, an objection or nothing), which the condition extraction does not open: the refusal may be there")
                    return False
        except Exception:
            pass
        # exceptions as control flow (`try: d[k] / except KeyError: ... / else: raise`): the path conditions are not extracted
        if any(isinstance(n_, ast.Try) and n_.handlers for n_ in ast.walk(c.fi.node)):
            rep.unk(rule, c.fi.site, what, f"{detail}; but the function uses try / except as control flow, whose paths the condition "
                    "extraction does not follow: the refusal may be decided there")
            return False
        # a divisibility / rounding test written with other arithmetic over the same quantities may be the same test
        # (x % (a // b) vs (x * b) % a when b divides a): that is undecided, not refuted
        try:
            e2 = dict(env or {})
            wants = [c.eng.cond(c.parse(t, e2)) for t in ([cond_texts] if isinstance(cond_texts, str) else cond_texts)]
            wa = [x for w in wants for x in _arith_atoms(c, w)]
            if wa:
                wops = {o for _, _, o in wa}
                wa = [(n_, t_) for n_, t_, _ in wa]
                def strip(ns):
                    return {n.lstrip("_") for n in ns}
                # named: `x & (N - 1)` standing in for `x % N` with an N that is not a power of two by construction
                mods = [x for w in wants for a_ in dl.f_atoms(w, set()) for x in ir.walk(c.eng.atom_ir.get(a_) or ('const', 0))
                        if x[0] == 'bin' and x[1] == '%']
                for conds, e, loops, ln, via in raise_sites(c):
                    if exc is not None and e != exc:
                        continue
                    f = _formula(c, conds)
                    for a_ in dl.f_atoms(f, set()):
                        e_ = c.eng.atom_ir.get(a_)
                        for x in ir.walk(e_) if e_ is not None else ():
                            if x[0] == 'nary' and x[1] == '&':
                                for mod in mods:
                                    N = mod[3]
                                    mask = c.norm(('bin', '-', N, ('const', 1)))
                                    pow2 = N[0] == 'bin' and N[1] == '**' and N[2] == ('const', 2)
                                    if mask in x[2] and c.norm(mod[2]) in [c.norm(o) for o in x[2]] and not pow2:
                                        rep.bad(rule, c.fi.site, what, f"`raise {e}` at line {ln} tests `{ir.show(x)[:80]}` where the documented test is "
                                                f"`{ir.show(mod)[:80]}`: a mask with N - 1 is the remainder modulo N only when N is a power of two, and "
                                                f"N = {ir.show(N)[:60]} need not be one (3, 6, ...): some misaligned values pass and some aligned ones are refused")
                                        return False
                for conds, e, loops, ln, via in raise_sites(c):
                    if exc is not None and e != exc:
                        continue
                    f = _formula(c, conds)
                    for names, a, ops in _arith_atoms(c, f):
                        if ops in wops:
                            continue                    # the same arithmetic with another operand is a different test, not a variant
                        if any(strip(names) >= strip(wn) and a != wt for wn, wt in wa) and not any(a == wt for _, wt in wa):
                            rep.unk(rule, c.fi.site, what, f"{detail}; but `raise {e}` at line {ln} tests `{a}`, other arithmetic over the same "
                                    "quantities, which may be the same condition: not decided")
                            return False
            else:
                # the documented condition has no arithmetic (a membership / type test), but a refusal of the same exception type
                # tests the same quantities *with* arithmetic (x & (x - 1), bit_length, //): it may be the same set of values
                wnames = set()
                for w in wants:
                    for a in dl.f_atoms(w, set()):
                        e_ = c.eng.atom_ir.get(a)
                        if e_ is not None:
                            wnames |= {x[1] if x[0] == 'name' else x[2] for x in ir.walk(e_)
                                       if x[0] == 'name' or (x[0] == 'attr' and x[1] == ('name', 'self'))}
                wnames -= {"isinstance", "int", "len"}
                # a pure type / sign test (isinstance, `is None`, comparison with 0) is not something modular arithmetic can restate
                def type_or_sign(e_):
                    if e_ is None:
                        return True
                    if e_[0] == 'call' and e_[1] == ('name', 'isinstance'):
                        return True
                    if e_[0] == 'cmp' and e_[1] in ('is', 'is not', '<', '<=', '>', '>=') and (e_[3] in (('const', 0), ('const', None), ('const', 1), ('const', -1)) or
                                                                                                e_[2] in (('const', 0), ('const', None), ('const', 1), ('const', -1))):
                        return True
                    return False
                if all(type_or_sign(c.eng.atom_ir.get(a)) for w in wants for a in dl.f_atoms(w, set())):
                    wnames = set()
                for conds, e, loops, ln, via in raise_sites(c):
                    if exc is not None and e != exc:
                        continue
                    f = _formula(c, conds)
                    for names, a, ops in _arith_atoms(c, f):
                        if wnames and {n_.lstrip("_") for n_ in names} >= {n_.lstrip("_") for n_ in wnames}:
                            rep.unk(rule, c.fi.site, what, f"{detail}; but `raise {e}` at line {ln} tests `{a}`, arithmetic over the same "
                                    "quantities, which may describe the same set of values: not decided")
                            return False
        except Undecided:
            pass
    rep.check(ok, rule, c.fi.site, what, detail)
    return ok


def merge_complementary(c, calls):
    """Two copies of one call that sit under `cond` and `not cond` (a loop body replayed for the two yields of a generator, the
    two arms of an if) are one call whose arguments are the choice between the two."""
    if len(calls) != 2:
        return calls
    (a, ga, la), (b, gb, lb) = calls
    fa = [fr for fr in ga if fr[0] == 'pyif']
    fb = [fr for fr in gb if fr[0] == 'pyif']
    if len(ga) != len(gb) or not fa or not fb:
        return calls
    diff = [(x, y) for x, y in zip(ga, gb) if x != y]
    if len(diff) != 1 or diff[0][0][0] != 'pyif' or diff[0][1][0] != 'pyif':
        return calls
    x, y = diff[0]
    if c.norm(x[1]) != c.norm(y[1]) or bool(x[2]) == bool(y[2]):
        return calls
    if a[1] != b[1] or len(a[2]) != len(b[2]) or [k for k, _ in a[3]] != [k for k, _ in b[3]]:
        return calls
    cond = c.norm(x[1])
    t, f = (a, b) if x[2] else (b, a)

    def phi(u, v):
        return u if u == v else c.norm(('phi', cond, u, v))
    merged = ('call', a[1], tuple(phi(u, v) for u, v in zip(t[2], f[2])), tuple((k, phi(u, v)) for (k, u), (_, v) in zip(t[3], f[3])))
    gen = tuple(fr for fr in ga if fr != x)
    return [(merged, gen, la)]


def closed_refusals(rep, rule, c, what, extra=(), ignore_exc=("AssertionError",)):
    """No *other* refusal: every `raise` of the function fires only under conditions that one of its documented refusals (the ones
    checked with check_refusal on this context, plus `extra`) covers.  A raise whose path condition is not contained in their
    disjunction refuses calls the documentation accepts -- the "accepted domain" of the property has shrunk.  Undecided when a
    condition is outside what the decision engine evaluates."""
    docs = [w for wants, lid, t in getattr(c, "_documented", []) for w in wants]
    for t in extra:
        docs.append(c.eng.cond(c.norm(int_canon(c.parse(t)))))
    loops_doc = {lid for wants, lid, t in getattr(c, "_documented", []) if lid is not None}
    site = c.fi.site
    n = 0
    clean = True
    # parameters that the pinned signature does not have: a refusal that only concerns them cannot refuse an existing call
    import json
    import os
    from ..core import canon as _canon
    with open(os.path.join(os.path.dirname(_canon.__file__), "anchor_sigs.json")) as f_:
        pinned = json.load(f_).get(c.fi.site)
    new_params = set()
    if pinned is not None:
        new_params = {p_ for p_ in c.fi.params if p_ not in pinned["pos"] + pinned["kwonly"]}
    for conds, e, loops, ln, via in raise_sites(c, depth=0):
        if e in ignore_exc:
            continue
        if e in (None, "?", ""):
            continue                                    # a bare `raise` inside an except handler passes on what was raised
        n += 1
        if new_params and conds:
            last = c.norm(conds[-1][0])
            names = {x[1] for x in ir.walk(last) if x[0] == 'name'}
            if names & new_params and not (names & (set(c.fi.params) - new_params)):
                continue                                # validates a parameter that did not exist before
        try:
            f = _formula(c, conds)
            covered = None
            if docs:
                try:
                    covered = dl.implies(c.eng, f, dl.f_or(*docs))[0]
                except Undecided:
                    # compare with each documented condition on its own
                    covered = False
                    for w in docs:
                        try:
                            if dl.implies(c.eng, f, w)[0]:
                                covered = True
                                break
                        except Undecided:
                            covered = None
            else:
                covered = dl.equivalent(c.eng, f, dl.F)[0]
        except Undecided:
            covered = None
        if covered:
            continue
        clean = False
        shown = " and ".join(("" if p_ else "not ") + "(" + ir.show(cd)[:70] + ")" for cd, p_ in conds) or "always"
        if covered is None or (loops and set(loops) & loops_doc) or getattr(c, "_refusal_gap", False):
            rep.unk(rule, site, what, f"`raise {e}` at line {ln} under {shown}: whether a documented refusal covers it is not decided")
        else:
            rep.bad(rule, site, what, f"`raise {e}` at line {ln} fires under {shown}, which no documented refusal of this call covers: "
                    "inputs the documentation accepts are refused", line=ln)
    if clean:
        rep.ok(rule, site, what, f"{n} raise site(s), each inside a documented refusal", nontrivial=n > 0)
    return clean

