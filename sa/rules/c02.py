"""C02 — memory-map allocation never overlaps, overflows, misaligns or half-applies."""
import ast

from ..core import ir
from .common import get_fn, get_ctor, kwarg
from . import apirules

EXPLANATION = ("MemoryMap book-keeping: failure atomicity (no raise reachable after a mutation on the CFG with "
               "interprocedural may-raise/writes summaries) and frozen refusal (guard edge dominates every mutation) are "
               "decided on every path of add_resource / add_window / align_to; freeze on hand-over by must-call; the inserted "
               "range, both tables and the cursor are tied together symbolically; half-open interval discipline by an "
               "endpoint-kind type table over the bisect / comparison sites; effective alignment expressions")


def run(rep, idx, tier):
    rep.explanation = EXPLANATION
    rep.assume("A1", "A3", "A4", "A5")
    rep.require("C02.1", 3)
    rep.require("C02.2", 3)
    rep.require("C02.3", 5)
    rep.require("C02.4", 6)
    rep.require("C02.5", 6)
    rep.require("C02.6", 7)
    rep.require("C02.7", 4)
    rep.require("C02.8", 3)
    rep.require("C02.9", 3)
    rep.require("C02.10", 8)
    rep.require("C02.11", 2)
    thorough = tier == "thorough"
    mm = idx.find_class("MemoryMap")
    add_res = idx.find_func("MemoryMap.add_resource")
    add_win = idx.find_func("MemoryMap.add_window")
    align_to = idx.find_func("MemoryMap.align_to")
    # ---- C02.1 failure atomicity ------------------------------------------------------------------
    for fi in (add_res, add_win, align_to):
        apirules.atomic(rep, "C02.1", idx, fi, enumerate_paths=thorough)
    # ---- C02.2 frozen => every add raises -----------------------------------------------------------
    for fi in (add_res, add_win):
        apirules.frozen_guard(rep, "C02.2", idx, fi)
    n = apirules.monotone_flag(rep, "C02.2", idx, mm)
    rep.check(n >= 2, "C02.2", mm.site, "the frozen flag is initialised and set by freeze()", f"{n} store(s) to _frozen", nontrivial=False)
    # ---- C02.3 freeze on hand-over ---------------------------------------------------------------------
    handover(rep, idx)
    # ---- C02.4 / C02.5 / C02.8 ---------------------------------------------------------------------------
    tables_and_cursor(rep, idx, "MemoryMap.add_resource", "_resources", "resource", named=True)
    tables_and_cursor(rep, idx, "MemoryMap.add_window", "_windows", "window", named=False)
    flat = compute_range(rep, idx)
    alignment(rep, idx, flat)
    # ---- C02.6 half-open intervals -----------------------------------------------------------------------
    intervals(rep, idx)
    # ---- C02.7 ordered reporting ----------------------------------------------------------------------------
    ordering(rep, idx)
    # ---- C02.9 the rounding helper (modular reduction, not a numeric run) ---------------------------------------
    from . import glue
    glue.align_up(rep, idx, "C02.9")
    # ---- C02.10 queries report the current contents: pure, or their memo is reset by every mutator ---------------
    query_coherence(rep, idx)
    from .c19 import shared_state
    shared_state(rep, idx, rule="C02.10", classes=["MemoryMap", "_RangeMap", "_Namespace"])
    glue.param_refusals(rep, "C02.10", idx, only=["MemoryMap.__init__", "ResourceInfo.__init__"])
    # ---- C02.11 no refusal beyond the documented ones (a legal placement is never rejected) ------------------------
    legal_placements(rep, idx, "C02.11")


def handover(rep, idx):
    def freezes(recv_ok):
        def pred(call, fg):
            return isinstance(call.func, ast.Attribute) and call.func.attr == "freeze" and recv_ok(ast.unparse(call.func.value))
        return pred
    sites = [
        ("MemoryMap.add_window", lambda r: r == "window", "add_window() freezes the window it is given"),
        ("csr/reg:Bridge.__init__", lambda r: r == "memory_map", "csr.Bridge freezes the map it is given"),
        ("PeripheralInfo.__init__", lambda r: r == "memory_map", "PeripheralInfo freezes the map it is given"),
        ("WishboneSRAM.__init__", lambda r: r in ("self.wb_bus.memory_map", "memory_map"), "WishboneSRAM freezes the map it publishes"),
    ]
    for spec, ok, what in sites:
        fi = idx.find_func(spec)
        if spec == "WishboneSRAM.__init__":
            # the published map under whatever local name it is built: the name(s) stored into self.wb_bus.memory_map
            published = {ast.unparse(st.value) for st in ast.walk(fi.node) if isinstance(st, ast.Assign) and isinstance(st.value, ast.Name) and
                         any(ast.unparse(t) == "self.wb_bus.memory_map" for t in st.targets)}
            ok = (lambda pub: (lambda r: r == "self.wb_bus.memory_map" or r in pub))(published)
        apirules.must_call(rep, "C02.3", idx, fi, freezes(ok), what)
    # Builder.as_memory_map: the returned map is frozen
    fi = idx.find_func("Builder.as_memory_map")
    rets = [n for n in ast.walk(fi.node) if isinstance(n, ast.Return) and n.value is not None]
    names = {ast.unparse(r.value) for r in rets}
    if len(names) != 1:
        rep.unk("C02.3", fi.site, "as_memory_map() returns a frozen map", f"returns {sorted(names)}")
    else:
        nm = next(iter(names))
        apirules.must_call(rep, "C02.3", idx, fi, freezes(lambda r: r == nm), "as_memory_map() freezes the map it returns")


def tables_and_cursor(rep, idx, spec, table, obj, named):
    c = get_fn(idx, spec)
    site = c.fi.site
    rep.analysed(site)
    ins = [e for e, gen, dsl_, ln in c.t.calls if e[0] == 'call' and c.norm(e)[1] == c.parse("self._ranges.insert")]
    if len(ins) != 1 or len(ins[0][2]) != 2:
        rep.bad("C02.4", site, "self._ranges.insert(range, object)", f"found {len(ins)} insertion(s) into the range map")
        return
    R, X = c.norm(ins[0][2][0]), c.norm(ins[0][2][1])
    rep.check(X == ('name', obj), "C02.4", site, f"the {obj} itself is inserted", f"inserted object is {ir.show(X)}")
    # provenance of R: the value returned by _compute_addr_range
    if helper_owns_placement(idx):
        rep.check(R[0] == 'call' and R[1] == c.parse("self._compute_addr_range"), "C02.5", site,
                  "the inserted range is exactly what _compute_addr_range() returned (validated range)",
                  f"inserted range is {ir.show(R)[:100]}")
    else:
        # the placement helper was split / merged: the range is validated in the flattened view (compute_range)
        rep.form(R[0] == 'call' and R[1] in (('name', 'range'), c.parse("self._compute_addr_range")), "C02.5", site,
                 "the inserted range is the validated range (flattened view)",
                 f"inserted range is {ir.show(R)[:100]}")
    st = c.stores.get(ir.show(c.parse(f"self.{table}[id({obj})]")))
    ok = st is not None and st[0][0] == 'tuple' and len(st[0][1]) == 3 and st[0][1][0] == ('name', obj) and st[0][1][2] == R
    wrong = None
    if st is not None and st[0][0] == 'tuple' and len(st[0][1]) == 3:
        if st[0][1][0] != ('name', obj):
            wrong = "another object is recorded"
        elif st[0][1][2] != R:
            wrong = "the range recorded is not the range inserted"
    elif st is None:
        wrong = "no table entry is made"
    rep.form(ok, "C02.4", site, f"the table entry records the same object and the same range",
             f"self.{table}[id({obj})] = {ir.show(st[0])[:120] if st else None}", wrong=wrong)
    cur = c.stores.get("self._next_addr")
    if cur is None:
        rep.bad("C02.4", site, "placement cursor advances to the end of the new item", "self._next_addr is not assigned")
    else:
        v = cur[0]
        last_plus = [c.norm(('bin', '+', ('sub', R, ('const', -1)), ('const', 1))), ('sub', R, ('const', -1))]
        if v == ('attr', R, 'stop'):
            rep.ok("C02.4", site, "placement cursor advances to the end of the new item", "self._next_addr = <inserted range>.stop")
        elif v == last_plus[0] and R[0] == 'call' and len(R[2]) < 3 and not any(k_ == 'step' for k_, _ in R[3]):
            rep.ok("C02.4", site, "placement cursor advances to the end of the new item",
                   "self._next_addr = <inserted range>[-1] + 1, and the range has step 1 here")
        elif v in last_plus:
            rep.bad("C02.4", site, f"self._next_addr = {ir.show(v)[:80]}", "the last *element* of the inserted range is stop - step, not stop - 1: "
                    "for a dense window (range(start, stop, ratio)) the cursor ends up inside the window and the next implicit placement overlaps it")
        elif v == ('attr', R, 'start') or v[0] == 'const' or v == c.norm(('bin', '+', ('attr', R, 'start'), ('call', ('name', 'len'), (R,), ()))):
            rep.bad("C02.4", site, f"self._next_addr = {ir.show(v)[:80]}", "the cursor must become the range's stop (start + element count "
                    "differs from the stop when the range has a step, i.e. for dense windows)")
        elif v[0] == 'call' and v[1] in (('name', 'max'), ('name', 'min')) and any(x == c.parse("self._next_addr") for a_ in v[2] for x in ir.walk(a_)):
            rep.bad("C02.4", site, f"self._next_addr = {ir.show(v)[:80]}", "the new cursor depends on the old one: after an item placed at an explicit "
                    "address below (or above) the cursor, the next implicit placement no longer follows the item that was added last")
        else:
            rep.unk("C02.4", site, f"self._next_addr = {ir.show(v)[:80]}", "unrecognised cursor update")
    # the tables are keyed by id(object): a second insertion of the same object must be refused, or two ranges
    # would share one table entry (and the object would be reported twice under one name)
    from .common import check_refusal
    check_refusal(rep, "C02.4", c, f"the same {obj} object cannot be added twice (ValueError)", f"id({obj}) in self.{table}", "ValueError")
    # each of the three effects happens on every path that inserts (they post-dominate the insertion)
    fg = apirules.graph(idx, c.fi)
    g = fg.g
    ins_nodes = [n.id for n in g.nodes if n.kind == "stmt" and "_ranges.insert" in fg.text(n.id)]
    pdom = g.postdominators([g.exit.id])
    for what, needle in ((f"table store self.{table}[...]", f"self.{table}["), ("cursor update", "self._next_addr =")):
        nodes = [n.id for n in g.nodes if n.kind == "stmt" and fg.text(n.id).startswith(needle)]
        ok = bool(ins_nodes) and bool(nodes) and all(any(x in pdom.get(i, ()) for x in nodes) for i in ins_nodes)
        if not ok and ins_nodes and nodes:
            # ... or precede it on every path (the same updates in another order; a raise in between is C02.1's business)
            dom = g.dominators()
            ok = all(any(x in dom.get(i, ()) for x in nodes) for i in ins_nodes)
        rep.check(ok, "C02.4", site, f"{what} happens on every path that inserts", "some path inserts the range without it")
    # the returned tuple reports the same range
    rets = [c.norm(v) for v, gen, ln in c.t.returns]
    ok = len(rets) == 1 and rets[0][0] == 'tuple' and rets[0][1][:2] == (('attr', R, 'start'), ('attr', R, 'stop'))
    rep.check(ok, "C02.4", site, "the call returns the assigned range", f"returns {ir.show(rets[0])[:100] if rets else None}", nontrivial=False)


def helper_owns_placement(idx):
    """The placement helper still has the interface of the pinned tree: (addr, size, step, *, alignment) -> range.  When a
    maintainer has split or merged it, the rules read the API functions with their helpers opened instead."""
    try:
        fi = idx.find_func("MemoryMap._compute_addr_range")
    except Exception:
        return False
    return {"addr", "size", "alignment"} <= set(fi.params)


def compute_range(rep, idx):
    """-> {api function: effective alignment expression} when the flattened view was used, else None."""
    if helper_owns_placement(idx):
        c = get_fn(idx, "MemoryMap._compute_addr_range", no_inline=("_align_up",))
        rep.analysed(c.fi.site)
        rets = [c.norm(v) for v, gen, ln in c.t.returns]
        if len(rets) != 1 or rets[0][0] != 'call' or rets[0][1] != ('name', 'range'):
            rep.unk("C02.5", c.fi.site, "returned range", f"returns {[ir.show(r)[:80] for r in rets]}")
            return None
        fg = apirules.graph(idx, c.fi)
        ret_nodes = [n.id for n in fg.g.nodes if n.kind == "stmt" and isinstance(n.ast, ast.Return)]
        range_rules(rep, idx, c, fg, rets[0], ret_nodes, ('name', 'alignment'), ('name', 'size'), "helper")
        stores_addr = [n for n in ast.walk(c.fi.node) if isinstance(n, ast.Name) and n.id == "addr" and isinstance(n.ctx, ast.Store)]
        rep.check(len(stores_addr) <= 1, "C02.5", c.fi.site, "an explicit address is honoured exactly (addr is only assigned on the implicit branch)",
                  f"{len(stores_addr)} assignment(s) to addr")
        return None
    # flattened view: every private helper of the API function is opened in place; the range is what is inserted
    from ..core import canon
    out = {}
    for spec, obj in (("MemoryMap.add_resource", "resource"), ("MemoryMap.add_window", "window")):
        fi = canon.flatten_function(idx, idx.find_func(spec), exclude=("_align_up",))
        fi.site = fi.site                                   # same site: findings name the API function
        c = flat_ctx(idx, fi)
        rep.analysed(c.fi.site)
        ins = [c.norm(e) for e, gen, dsl_, ln in c.t.calls if e[0] == 'call' and c.norm(e)[1] == c.parse("self._ranges.insert")]
        if len(ins) != 1 or len(ins[0][2]) != 2 or ins[0][2][0][0] != 'call' or ins[0][2][0][1] != ('name', 'range'):
            rep.unk("C02.5", c.fi.site, "inserted range", f"self._ranges.insert(...) calls: {[ir.show(x)[:100] for x in ins]} "
                    f"(helpers opened: {getattr(fi, 'flattened', [])})")
            continue
        R = ins[0][2][0]
        # the effective alignment is the second argument of the _align_up() that places the cursor
        A = None
        for x in ir.walk(R[2][0]):
            if x[0] == 'call' and x[1] == c.parse("self._align_up") and len(x[2]) == 2 and x[2][0] == c.parse("self._next_addr"):
                A = x[2][1]
        if A is None:
            rep.form(False, "C02.5", c.fi.site, "range starts at the explicit address unchanged, or at the cursor aligned up to the effective alignment",
                     f"start is {ir.show(R[2][0])[:140]}: no self._align_up(self._next_addr, <alignment>) in it",
                     wrong=None if R[2][0] != ('name', 'addr') else "the implicit cursor is never aligned")
            continue
        fg = FlatGraph(idx, fi)
        ins_nodes = [n.id for n in fg.g.nodes if n.kind == "stmt" and "_ranges.insert" in fg.text(n.id)]
        size = ('name', 'size') if obj == "resource" else None
        range_rules(rep, idx, c, fg, R, ins_nodes, A, size, "flat")
        out[spec] = A
    return out


_FLAT = {}


def flat_ctx(idx, fi):
    from .common import CtorCtx
    key = (id(idx), fi.site, 'flat')
    if key not in _FLAT:
        _FLAT[key] = CtorCtx(idx, fi, ("_align_up",))
    return _FLAT[key]


def FlatGraph(idx, fi):
    key = (id(idx), fi.site, 'flatgraph')
    if key not in _FLAT:
        _FLAT[key] = apirules.FnGraph(idx, fi)
    return _FLAT[key]


def range_rules(rep, idx, c, fg, R, ret_nodes, A, SIZE, view):
    """The placed range R = range(start, stop[, step]): its form, and the tests that dominate the node(s) handing it on."""
    fi = c.fi
    site = fi.site
    args = R[2]
    al = ('call', c.parse("self._align_up"), (c.parse("self._next_addr"), A), ())
    want_addr = ('phi', c.parse("addr is not None"), ('name', 'addr'), al)
    alt_addr = ('phi', c.parse("addr is None"), al, ('name', 'addr'))
    a_ok = len(args) >= 2 and args[0] in (c.norm(want_addr), c.norm(alt_addr))
    rep.check(a_ok, "C02.5", site, "range starts at the explicit address unchanged, or at the cursor aligned up to the effective alignment",
              f"start is {ir.show(args[0])[:140] if args else None}")
    size = None
    if len(args) >= 2 and SIZE is not None:
        size = c.norm(('call', c.parse("self._align_up"), (('call', ('name', 'max'), (SIZE, ('const', 1)), ()), A), ()))
        s_ok = args[1] == c.norm(('bin', '+', args[0], size))
    elif len(args) >= 2:
        # a window: the span is derived from the window (C03.2 checks it); here: stop = start + _align_up(max(S, 1), A) for some S
        s_ok = False
        for x in ir.walk(args[1]):
            if x[0] == 'call' and x[1] == c.parse("self._align_up") and len(x[2]) == 2 and x[2][1] == A and x[2][0] != c.parse("self._next_addr") and \
                    x[2][0][0] == 'call' and x[2][0][1] == ('name', 'max') and ('const', 1) in x[2][0][2] and \
                    args[1] == c.norm(('bin', '+', args[0], x)):
                s_ok, size = True, x
    else:
        s_ok = False
    rep.check(s_ok, "C02.5", site, "range covers max(size, 1) rounded up to the effective alignment",
              f"stop is {ir.show(args[1])[:160] if len(args) > 1 else None}")
    if view == "helper":
        rep.check(len(args) == 3 and args[2] == ('name', 'step') or len(args) == 2, "C02.5", site, "the step is the caller's ratio",
                  f"step is {ir.show(args[2]) if len(args) > 2 else 'absent'}", nontrivial=False)
    else:
        ratio = [c.norm(c.parse(t)) for t in ("1 if sparse else self.data_width // window.data_width",
                                              "self.data_width // window.data_width if not sparse else 1")]
        st_ok = len(args) == 2 or args[2] == ('const', 1) if SIZE is not None else len(args) == 3 and args[2] in ratio
        rep.form(st_ok, "C02.5", site, "the step is 1 for a resource and the width ratio for a window",
                 f"step is {ir.show(args[2]) if len(args) > 2 else 'absent'}", nontrivial=False)
    if size is None:
        size = c.parse("self._align_up(max(size, 1), alignment)")
    # bounds test and overlap test dominate the hand-over, each raising on its failing edge
    g = fg.g
    dom = g.dominators()
    # conditions with local aliases substituted (from the symbolic walk), matched to CFG test nodes by line
    sym = {}
    for cond, gen, ln in c.t.conds:
        sym.setdefault(ln, c.norm(cond))
    tests = {n.id: sym.get(n.lineno, ir.norm(ir.from_ast(n.ast, {}))) for n in g.nodes if n.kind == "test"}

    def raising_side(t):
        out = []
        for m, lab in g.succ[t]:
            if lab in ("true", "false"):
                sub = g.reachable([m])
                if g.exit.id not in sub:
                    out.append(lab)
        return out
    limit = c.parse("1 << self.addr_width")
    top = c.norm(('bin', '+', args[0], size)) if len(args) >= 2 else None
    ov_call = c.norm(('call', c.parse("self._ranges.overlaps"), (R,), ()))
    bound_ok = over_ok = False
    for t, e in tests.items():
        if not ret_nodes or any(t not in dom[r] for r in ret_nodes):
            continue
        side = raising_side(t)
        parts = list(e[1]) if e[0] == 'or' else [e]
        for p in parts:
            pos, pol = ir.split_neg(p)
            # limit < addr + size  (strict: a range may end exactly at the limit); normalised as  lin(...) cmp const
            if pos[0] == 'cmp' and pos[1] == '<' and top is not None:
                strict = None
                if pos[2] == limit and pos[3] == top:
                    strict = pol                      # limit < top: strict;  not (limit < top) raising would be nonsense
                    raises_when = pol
                elif pos[2] == top and pos[3] == limit:
                    # not (top < limit)  ==  limit <= top : the inclusive (wrong) comparison
                    strict = False if not pol else None
                    raises_when = pol
                if strict is not None and (('true' in side) if raises_when else ('false' in side)):
                    if strict:
                        bound_ok = True
                    else:
                        rep.bad("C02.6", site, "addr + size > 2**addr_width", "the bounds test uses >= : a range that ends exactly at the top of the "
                                "address space would be rejected (exclusive upper bound compared inclusively)")
                        bound_ok = None
            # non-empty overlaps raises:  X | len(X) > 0 | len(X) != 0 | not (not X)
            nonempty = None
            if pos == ov_call:
                nonempty = pol
            elif pos[0] == 'cmp' and pos[1] == '<' and pos[2] == ('const', 0) and pos[3] == ('call', ('name', 'len'), (ov_call,), ()):
                nonempty = pol
            elif pos[0] == 'cmp' and pos[1] == '==' and pos[2] == ('call', ('name', 'len'), (ov_call,), ()) and pos[3] == ('const', 0):
                nonempty = not pol
            if nonempty is not None and (('true' in side) if nonempty else ('false' in side)):
                over_ok = True
    if bound_ok is not None:
        rep.check(bool(bound_ok), "C02.5", site, "every returned range passed the bounds test (addr + size > 2**addr_width raises)",
                  "no dominating bounds test with a raising failure edge found")
        if bound_ok:
            rep.ok("C02.6", site, "bounds comparison is strict: U > X (exclusive upper bound against exclusive limit)", "addr + size > 1 << addr_width")
    rep.check(bool(over_ok), "C02.5", site, "every returned range passed the overlap test (non-empty overlaps raises)",
              "no dominating test of self._ranges.overlaps(<the range>) with a raising edge for the non-empty case")


def alignment(rep, idx, flat=None):
    c = get_fn(idx, "MemoryMap.add_resource")
    site = c.fi.site
    calls = [x for x, gen, ln in c.calls_named("_compute_addr_range")]
    eff = ('phi', c.parse("alignment is not None"), c.parse("max(alignment, self.alignment)"), c.parse("self.alignment"))
    eff2 = ('phi', c.parse("alignment is None"), c.parse("self.alignment"), c.parse("max(alignment, self.alignment)"))
    if flat is not None:
        A = flat.get("MemoryMap.add_resource")
        if A is None:
            rep.unk("C02.8", site, "effective alignment == max(requested, map alignment), or the map alignment when none is requested",
                    "the placement of add_resource() was not recognised in the flattened view")
        else:
            rep.check(A in (c.norm(eff), c.norm(eff2)), "C02.8", site,
                      "effective alignment == max(requested, map alignment), or the map alignment when none is requested",
                      f"the cursor is aligned to {ir.show(A)[:120]}")
    else:
        ok = bool(calls) and all(kwarg(x, 'alignment') in (c.norm(eff), c.norm(eff2)) for x in calls)
        rep.check(ok, "C02.8", site, "effective alignment == max(requested, map alignment), or the map alignment when none is requested",
                  f"_compute_addr_range(alignment={ir.show(kwarg(calls[0], 'alignment'))[:120] if calls else None})")
    a = get_fn(idx, "MemoryMap.align_to", no_inline=("_align_up",))
    st = a.stores.get("self._next_addr")
    ok = st is not None and st[0] == a.parse("self._align_up(self._next_addr, max(alignment, self.alignment))")
    rep.check(ok, "C02.8", a.fi.site, "align_to() advances the cursor to a multiple of 2**max(alignment, map alignment)",
              f"self._next_addr = {ir.show(st[0]) if st else None}")
    rets = [a.norm(v) for v, gen, ln in a.t.returns]
    rep.check(rets == [a.parse("self._next_addr")] or (st is not None and rets == [a.norm(st[0])]), "C02.8", a.fi.site, "align_to() returns the new cursor", f"returns {[ir.show(r) for r in rets]}",
              nontrivial=False)
    w = get_fn(idx, "MemoryMap.add_window")
    calls = [x for x, gen, ln in w.calls_named("_compute_addr_range")]
    if flat is not None:
        A = flat.get("MemoryMap.add_window")
        if A is None:
            rep.unk("C02.8", w.fi.site, "window alignment is at least the map alignment (max(self.alignment, ...))",
                    "the placement of add_window() was not recognised in the flattened view")
        else:
            rep.check(kw_is_max_with_map_alignment(w, A), "C02.8", w.fi.site, "window alignment is at least the map alignment (max(self.alignment, ...))",
                      f"the cursor is aligned to {ir.show(A)[:120]}")
        return
    ok = bool(calls) and all(kw_is_max_with_map_alignment(w, kwarg(x, 'alignment')) for x in calls)
    rep.check(ok, "C02.8", w.fi.site, "window alignment is at least the map alignment (max(self.alignment, ...))",
              f"alignment={ir.show(kwarg(calls[0], 'alignment'))[:120] if calls else None}")


def kw_is_max_with_map_alignment(c, e):
    return e is not None and e[0] == 'call' and e[1] == ('name', 'max') and c.parse("self.alignment") in e[2]


# endpoint kinds:  L inclusive lower (.start, point)   U exclusive upper (.stop)
BISECT_RULES = {
    # (list, probe kind) -> required variant, reason
    ("_stops", "L"): ("bisect_right", "first range whose (exclusive) stop lies beyond an inclusive start / point: stop == probe does not contain it"),
    ("_starts", "U"): ("bisect_left", "ranges whose (inclusive) start lies before an exclusive stop: start == probe does not overlap"),
    ("_starts", "UI"): ("bisect_right", "ranges whose (inclusive) start is at or before an inclusive last address: start == probe overlaps"),
    ("_stops", "UI"): ("bisect_right", "first range whose (exclusive) stop lies beyond an inclusive address"),
    ("_starts", "LAST"): (None, "the last element of a stepped range (a dense window: range(start, stop, ratio)) is stop - step, not the "
                                "last address stop - 1: ranges starting between the two are not seen as overlapping"),
    ("_stops", "LAST"): (None, "the last element of a stepped range is stop - step, not its last address stop - 1"),
}


def probe_kind(e):
    if e[0] == 'bin' and e[1] == '-' and e[2][0] == 'attr' and e[2][2] == 'stop' and e[3] == ('const', 1):
        return "UI"                                 # inclusive upper endpoint: the last address of the range
    if e[0] == 'attr' and e[2] == 'start':
        return "L"
    if e[0] == 'attr' and e[2] == 'stop':
        return "U"
    if e[0] == 'name' and e[1] in ('point', 'address', 'addr'):
        return "L"
    if e[0] == 'sub' and e[1][0] == 'name' and e[2] == ('const', 0):
        return "L"                                  # first element of a (non-empty) range == .start
    if e[0] == 'sub' and e[1][0] == 'name' and e[2] in (('const', -1), ('un', '-', ('const', 1))):
        return "LAST"                               # last *element*: stop - step, not stop - 1, for a stepped range
    return None


def _endpoint_key(kf, module):
    """'start' / 'stop' for key functions attrgetter("start"), lambda r: r.start, or a module-level name bound to one of these."""
    if isinstance(kf, ast.Name) and module is not None:
        for st in module.tree.body:
            if isinstance(st, ast.Assign) and len(st.targets) == 1 and isinstance(st.targets[0], ast.Name) and st.targets[0].id == kf.id:
                return _endpoint_key(st.value, None)
        return None
    if isinstance(kf, ast.Call) and ast.unparse(kf.func) in ("operator.attrgetter", "attrgetter") and len(kf.args) == 1 and \
            isinstance(kf.args[0], ast.Constant):
        return kf.args[0].value
    if isinstance(kf, ast.Lambda) and len(kf.args.args) == 1 and isinstance(kf.body, ast.Attribute) and isinstance(kf.body.value, ast.Name) and \
            kf.body.value.id == kf.args.args[0].arg:
        return kf.body.attr
    return None


def intervals(rep, idx, rule="C02.6"):
    rm = idx.find_class("_RangeMap")
    nsites = 0
    for mname in ("get", "overlaps"):
        fi = rm.method(mname)
        rep.analysed(fi.site)
        for n in ast.walk(fi.node):
            if isinstance(n, ast.Call) and isinstance(n.func, ast.Attribute) and n.func.attr.startswith("bisect") and len(n.args) >= 2:
                lst = ir.from_ast(n.args[0], {})
                probe = ir.from_ast(n.args[1], {})
                lname = lst[2] if lst[0] == 'attr' else None
                # bisect(self._keys, x, key=<start / stop of a range>) searches the same sorted endpoints that the parallel lists hold
                kf = next((k_.value for k_ in n.keywords if k_.arg == "key"), None)
                if kf is not None:
                    attr = _endpoint_key(kf, fi.module if hasattr(fi, "module") else None)
                    lname = {"start": "_starts", "stop": "_stops"}.get(attr)
                pk = probe_kind(probe)
                if pk is None and probe[0] == 'name':
                    # a local bound once (plain or tuple-unpacking assignment) stands for the expression bound to it
                    binds = []
                    for s_ in ast.walk(fi.node):
                        if isinstance(s_, ast.Assign) and len(s_.targets) == 1:
                            t_ = s_.targets[0]
                            if isinstance(t_, ast.Name) and t_.id == probe[1]:
                                binds.append(s_.value)
                            elif isinstance(t_, ast.Tuple) and isinstance(s_.value, ast.Tuple) and len(t_.elts) == len(s_.value.elts):
                                for a_, b_ in zip(t_.elts, s_.value.elts):
                                    if isinstance(a_, ast.Name) and a_.id == probe[1]:
                                        binds.append(b_)
                    stores = [x for x in ast.walk(fi.node) if isinstance(x, ast.Name) and x.id == probe[1] and isinstance(x.ctx, ast.Store)]
                    if len(binds) == 1 and len(stores) == 1:
                        probe = ir.norm(ir.from_ast(binds[0], {}))
                        pk = probe_kind(probe)
                what = f"{mname}(): {ast.unparse(n)}"
                nsites += 1
                brule = BISECT_RULES.get((lname, pk))
                if brule is None:
                    rep.unk(rule, fi.site, what, f"no endpoint-kind rule for list {lname} probed with kind {pk}")
                    continue
                if brule[0] is None:
                    rep.bad(rule, fi.site, what, brule[1], line=n.lineno)
                    continue
                rep.check(n.func.attr == brule[0], rule, fi.site, what, f"needs {brule[0]}: {brule[1]}")
    # insertion: index lists stay aligned (same index for _starts and _keys, matching probes)
    ins = get_fn(idx, "_RangeMap.insert")
    calls = {ir.show(x[1][1]): x for x, gen, ln in ins.calls_named("insert") if x[1][0] == 'attr'}
    s, t, k = calls.get("self._starts"), calls.get("self._stops"), calls.get("self._keys")
    ok = s is not None and t is not None and k is not None and len(s[2]) == 2 and len(t[2]) == 2 and len(k[2]) == 2 and \
        s[2][1] == ins.parse("key.start") and t[2][1] == ins.parse("key.stop") and k[2][1] == ('name', 'key') and \
        k[2][0] in (s[2][0], t[2][0]) and _bisect_on(s[2][0], "_starts", "start") and _bisect_on(t[2][0], "_stops", "stop")
    if not ok and s is None and t is None and k is not None and len(k[2]) == 2 and k[2][1] == ('name', 'key'):
        # one list of ranges, searched by endpoint through key=: the key goes where its own start (or stop) sorts to
        pos = k[2][0]
        src = None
        for n_ in ast.walk(ins.fi.node):
            if isinstance(n_, ast.Call) and isinstance(n_.func, ast.Attribute) and n_.func.attr.startswith("bisect") and len(n_.args) >= 2 and \
                    ast.unparse(n_.args[0]) == "self._keys":
                kf = next((k_.value for k_ in n_.keywords if k_.arg == "key"), None)
                attr = _endpoint_key(kf, ins.fi.module) if kf is not None else None
                if attr in ("start", "stop") and ast.unparse(n_.args[1]) == f"key.{attr}":
                    src = (attr, n_)
        binds = [x for x in ast.walk(ins.fi.node) if isinstance(x, ast.Assign) and len(x.targets) == 1 and isinstance(x.targets[0], ast.Name) and
                 pos[0] == 'name' and x.targets[0].id == pos[1]]
        if src is not None and (pos[0] != 'name' or (len(binds) == 1 and any(y is src[1] for y in ast.walk(binds[0].value))) or
                                ins.norm(pos)[0] == 'call'):
            ok = True
            rep.note(f"{rule}: insert() keeps one list of ranges sorted by endpoint (bisect with key=...)") if hasattr(rep, "note") else None
    wrong = None
    if s is not None and t is not None and k is not None and len(s[2]) == 2 and len(t[2]) == 2 and len(k[2]) == 2:
        if s[2][1] != ins.parse("key.start") or t[2][1] != ins.parse("key.stop"):
            wrong = "an endpoint list receives the wrong endpoint of the key"
        elif k[2][0] not in (s[2][0], t[2][0]):
            wrong = "the key list is indexed differently from the endpoint lists: the three parallel lists fall out of step"
    rep.form(bool(ok), rule, ins.fi.site, "insert(): starts / stops / keys receive the key at the position its own endpoint sorts to",
             "parallel sorted lists", wrong=wrong)
    st = ins.stores.get("self._values[key]")
    rep.form(st is not None and st[0] == ('name', 'value'), rule, ins.fi.site, "insert(): value stored under the key", "",
             nontrivial=False)
    # membership test in get(): L <= P and P < U
    g = get_fn(idx, "_RangeMap.get")
    fi = g.fi
    tests = [ir.norm(ir.from_ast(n.test, g_env(g))) for n in ast.walk(fi.node) if isinstance(n, ast.If)]
    found = None
    for tst in tests:
        parts = list(tst[1]) if tst[0] == 'and' else [tst]
        cmps = [ir.split_neg(p) for p in parts]
        cmps = [(p, pol) for p, pol in cmps if p[0] == 'cmp' and ir.mentions(p, ('name', 'point'))]
        if len(cmps) == 2:
            found = cmps
    if found is None:
        # the same test as the path condition of the return that hands out a value (guard clauses, nested ifs, De Morgan)
        def conj(e, pol):
            e = g.norm(e)
            if e[0] == 'un' and e[1] == 'not':
                return conj(e[2], not pol)
            if pol and e[0] == 'and':
                return [y for x in e[1] for y in conj(x, True)]
            if not pol and e[0] == 'or':
                return [y for x in e[1] for y in conj(x, False)]
            return [(e, pol)]
        for v, gen, ln in g.t.returns:
            if g.norm(v) == ('const', None):
                continue
            lits = [y for fr in gen if fr[0] == 'pyif' for y in conj(fr[1], fr[2])]
            cmps = [(p_, pol) for p_, pol in lits if p_[0] == 'cmp' and ('name', 'point') in (p_[2], p_[3])]
            if len(cmps) == 2:
                found = cmps
    if found is None:
        rep.unk(rule, fi.site, "get(): membership test", "no two-sided comparison of the point with a range found")
    else:
        # canonical order relation is '<' (a <= b is not (b < a)); membership is  not (point < start)  and  point < stop
        ops = {}
        for p, pol in found:
            lhs, rhs = p[2], p[3]
            if lhs == ('name', 'point') and rhs[0] == 'attr':
                ops[rhs[2]] = ('point<', pol)
            elif rhs == ('name', 'point') and lhs[0] == 'attr':
                ops[lhs[2]] = ('<point', pol)
        good = ops.get('start') == ('point<', False) and ops.get('stop') == ('point<', True)
        nsites += 2
        rep.check(good, rule, fi.site, "get(): start <= point and point < stop (half-open membership)",
                  f"comparisons found: {[('' if pol else 'not ') + ir.show(p) for p, pol in found]}")
    rep.count("interval_sites", nsites)


def g_env(g):
    return {}


def _bisect_on(e, lst, attr):
    return e[0] == 'call' and e[1][0] == 'attr' and e[1][2].startswith('bisect') and len(e[2]) == 2 and \
        e[2][0] == ('attr', ('name', 'self'), lst) and e[2][1] == ('attr', ('name', 'key'), attr)


def ordering(rep, idx):
    rm = idx.find_class("_RangeMap")
    items = rm.method("items")
    ci = get_fn(idx, items)
    loops = list(ci.t.loops.values())
    follows = len(loops) == 1 and ir.mentions(ci.norm(loops[0].iter), ci.parse("self._keys")) and not loops[0].reversed and \
        not any(x[0] == 'call' and x[1] in (('name', 'sorted'), ('name', 'reversed'), ('name', 'set')) for x in ir.walk(ci.norm(loops[0].iter)))
    rep.form(follows, "C02.7", items.site, "_RangeMap.items() follows the sorted key list", f"iterates {[ir.show(ci.norm(l.iter)) for l in loops]}",
             wrong="iteration order is reversed / re-sorted" if loops and (loops[0].reversed or any(
                 x[0] == 'call' and x[1] in (('name', 'sorted'), ('name', 'reversed')) for x in ir.walk(ci.norm(loops[0].iter)))) else None)
    src_items = ir.parse("self._ranges.items()")
    for name in ("resources", "windows", "all_resources"):
        fi = idx.find_func(f"MemoryMap.{name}")
        c = get_fn(idx, fi, no_inline=("_translate",))
        outer = [L for L in c.t.loops.values() if ir.mentions(c.norm(L.iter), src_items)]
        bad_wrap = any(x[0] == 'call' and x[1] in (('name', 'sorted'), ('name', 'reversed'), ('name', 'set')) for L in outer for x in ir.walk(c.norm(L.iter)))
        ok = len(outer) == 1 and not outer[0].reversed and not bad_wrap
        if not outer:
            # a different source altogether (e.g. the insertion-ordered tables) loses the address order
            rep.bad("C02.7", fi.site, f"{name}() draws from self._ranges.items() (ascending address order)",
                    f"iterates {[ir.show(c.norm(L.iter))[:60] for L in c.t.loops.values()]}")
        else:
            rep.check(ok, "C02.7", fi.site, f"{name}() draws from self._ranges.items() (ascending address order)",
                      f"iterates {[ir.show(c.norm(L.iter))[:60] for L in outer]}")
    wp = get_fn(idx, "MemoryMap.window_patterns")
    ok = any(wp.norm(L.iter) == wp.parse("self.windows()") for L in wp.t.loops.values())
    rep.check(ok, "C02.7", wp.fi.site, "window_patterns() follows windows()", f"iterates {[ir.show(wp.norm(L.iter)) for L in wp.t.loops.values()]}",
              nontrivial=False)


MAP_CLASSES = ("MemoryMap", "_RangeMap", "_Namespace")
PURE_QUERIES = ("resources", "windows", "window_patterns", "all_resources", "find_resource", "decode_address")
TABLES = ("_ranges", "_resources", "_windows", "_namespace", "_starts", "_stops", "_keys", "_values", "_assignments")


def query_coherence(rep, idx, rule="C02.10", only=None):
    """A query (resources(), windows(), window_patterns(), find_resource(), ...) must report what the map holds *now*.
    Structural condition: a query writes no field of the map; or, if it keeps a memo, every method that changes the
    tables writes that memo as well (resets it).  A memo no mutator touches goes stale on the next add."""
    from ..core.effects import get_effects
    ef = get_effects(idx)
    for cname in MAP_CLASSES:
        cls = idx.find_class(cname)
        if cls is None:
            rep.unk(rule, "-", f"class {cname}", "not found")
            continue
        summ = {}
        for name, fs in cls.methods.items():
            for f in fs:
                summ.setdefault(name, []).append((f, {loc[2][0] for loc in ef.summary(f).writes if loc[0] == 'self' and loc[2]}))
        other_state = {n for n, lst in summ.items() for f, w in lst if n != "__init__" and w and w <= {"_frozen", "_next_addr"}}
        mutators = {n for n, lst in summ.items() for f, w in lst if n != "__init__" and w & set(TABLES)}
        for name, lst in sorted(summ.items()):
            if cname == "MemoryMap" and name in PURE_QUERIES and name in other_state and (only is None or name in only):
                # a look-up that freezes (or moves the cursor of) the map it is asked about changes what the user may do next
                for f, w in lst:
                    for attr in sorted(w):
                        rep.bad(rule, f.site, f"{cname}.{name}() writes no field of the map",
                                f"the query sets self.{attr}" + (": the map is frozen by merely looking something up, and the next add_resource() / "
                                                                 "add_window() on a map the user never froze is refused" if attr == "_frozen" else
                                                                 ": the placement cursor moves when the map is only inspected"))
                continue
            if name == "__init__" or name in mutators or name in other_state:
                continue
            if only is not None and name not in only:
                continue
            for f, w in lst:
                if not w:
                    rep.ok(rule, f.site, f"{cname}.{name}() writes no field of the map", "pure query", nontrivial=True)
                    continue
                for attr in sorted(w):
                    if attr == "_frozen":
                        rep.ok(rule, f.site, f"{cname}.{name}() only sets the frozen flag", "monotone flag (C02.2)", nontrivial=False)
                        continue
                    missing = sorted(m for m in mutators if not any(attr in mw for _, mw in summ[m]))
                    if missing and cname == "MemoryMap" and _filled_only_when_frozen(f, attr):
                        rep.ok(rule, f.site, f"{cname}.{name}() keeps state in self.{attr}",
                               "the memo is only ever filled under a test of the frozen flag: a frozen map (and every window below it, "
                               "frozen when it was added) refuses all further additions (C02.2), so nothing can invalidate it", nontrivial=False)
                    elif missing:
                        rep.bad(rule, f.site, f"{cname}.{name}() keeps state in self.{attr}",
                                f"{', '.join(m + '()' for m in missing)} change(s) the map without touching self.{attr}: what {name}() "
                                "reports after a later add is what it computed before it")
                    else:
                        rep.unk(rule, f.site, f"{cname}.{name}() keeps state in self.{attr}",
                                "every mutator writes it too; whether that write invalidates the memo is not decided")


def _filled_only_when_frozen(f, attr):
    """Every store of a value other than None to self.<attr> in f sits under an `if` whose test is the frozen flag (self._frozen,
    self.frozen, or a local bound to one of them and not rebound)."""
    parents = {}
    for n in ast.walk(f.node):
        for ch in ast.iter_child_nodes(n):
            parents[ch] = n
    flags = {}
    for n in ast.walk(f.node):
        if isinstance(n, ast.Assign) and len(n.targets) == 1:
            t, v = n.targets[0], n.value
            pairs = list(zip(t.elts, v.elts)) if isinstance(t, ast.Tuple) and isinstance(v, ast.Tuple) and len(t.elts) == len(v.elts) else [(t, v)]
            for t_, v_ in pairs:
                if isinstance(t_, ast.Name):
                    flags.setdefault(t_.id, []).append(v_)

    def is_flag(e):
        if isinstance(e, ast.Attribute) and isinstance(e.value, ast.Name) and e.value.id == "self" and e.attr in ("_frozen", "frozen"):
            return True
        return isinstance(e, ast.Name) and len(flags.get(e.id, ())) == 1 and is_flag(flags[e.id][0])
    stores = [n for n in ast.walk(f.node) if isinstance(n, (ast.Assign, ast.AugAssign, ast.AnnAssign)) and
              any(isinstance(t, ast.Attribute) and isinstance(t.value, ast.Name) and t.value.id == "self" and t.attr == attr
                  for t in (n.targets if isinstance(n, ast.Assign) else [n.target]))]
    mut_calls = [n for n in ast.walk(f.node) if isinstance(n, ast.Call) and isinstance(n.func, ast.Attribute) and
                 isinstance(n.func.value, ast.Attribute) and isinstance(n.func.value.value, ast.Name) and n.func.value.value.id == "self" and
                 n.func.value.attr == attr and n.func.attr in ("append", "add", "update", "extend", "setdefault", "insert")]
    subs = [n for n in ast.walk(f.node) if isinstance(n, ast.Assign) and any(
        isinstance(t, ast.Subscript) and isinstance(t.value, ast.Attribute) and isinstance(t.value.value, ast.Name) and
        t.value.value.id == "self" and t.value.attr == attr for t in n.targets)]
    fills = [n for n in stores if not (isinstance(n, ast.Assign) and isinstance(n.value, ast.Constant) and n.value.value is None)] + mut_calls + subs
    if not fills:
        return False
    for n in fills:
        x, guarded = n, False
        while x in parents:
            p_ = parents[x]
            if isinstance(p_, ast.If) and x in p_.body and is_flag(p_.test):
                guarded = True
                break
            x = p_
        if not guarded:
            return False
    return True


def sign_refusals(rep, idx, rule):
    """Type / sign refusals of the placement: exactly a negative or non-integer address, size or alignment is refused -- 0 is legal
    for each of them.  Every raise whose condition only tests the type or the sign of `addr` / `size` / `alignment` must be covered by
    the documented condition (a `<= 0` or `< 1` refuses the legal value 0)."""
    from .common import raise_sites, _formula, int_canon, check_refusal, Undecided
    from ..core import dl
    from ..core import canon
    specs = [("MemoryMap.add_resource", [("addr", "addr is not None and (not isinstance(addr, int) or addr < 0)"),
                                         ("size", "not isinstance(size, int) or size < 0")], True),
             ("MemoryMap.add_window", [("addr", "addr is not None and (not isinstance(addr, int) or addr < 0)")], True),
             ("MemoryMap.align_to", [("alignment", "not isinstance(alignment, int) or alignment < 0")], False)]
    for spec, docs, flatten in specs:
        if flatten:
            # the placement helper (and whatever it was split into) opened in place: the refusals are the API function's, wherever written
            try:
                c = flat_ctx(idx, canon.flatten_function(idx, idx.find_func(spec), exclude=("_align_up",)))
            except Exception as e:
                rep.unk(rule, "-", f"{spec}: sign / type refusals", f"flattened view failed: {type(e).__name__}: {e}")
                continue
        else:
            c = get_fn(idx, spec)
        site = c.fi.site
        for pname, text in docs:
            if pname not in c.fi.params:
                continue
            check_refusal(rep, rule, c, f"{spec.split('.')[-1]}(): a negative or non-integer {pname} is refused (ValueError)", text, "ValueError")
            doc = c.eng.cond(c.norm(int_canon(c.parse(text))))
            for conds, e, loops, ln, via in raise_sites(c, depth=0):
                try:
                    f = _formula(c, conds)
                    atoms = [c.eng.atom_ir.get(a) for a in dl.f_atoms(f, set())]
                    def about(a):
                        if a is None:
                            return False
                        names = {x[1] for x in ir.walk(a) if x[0] == 'name'} - {"isinstance", "int", "None"}
                        consts_only = all(x[0] in ('name', 'const', 'cmp', 'call', 'un') or x == ('name', 'int') for x in ir.walk(a))
                        return names == {pname} and consts_only
                    if not atoms or not all(about(a) for a in atoms):
                        continue
                    if not dl.implies(c.eng, f, doc)[0]:
                        rep.bad(rule, site, f"{spec.split('.')[-1]}(): only a negative or non-integer {pname} is refused on sign / type grounds",
                                f"`raise {e}` at line {ln} fires under {dl.f_show(f)[:100]}, which includes legal values (0 is a legal {pname})", line=ln)
                    else:
                        rep.ok(rule, site, f"{spec.split('.')[-1]}(): only a negative or non-integer {pname} is refused on sign / type grounds",
                               f"raise at line {ln}", nontrivial=False)
                except Undecided:
                    continue


def legal_placements(rep, idx, rule):
    from . import glue
    sign_refusals(rep, idx, rule)
    def bounds(a):
        # the bounds test (mentions the map's address width) and the overlap query are documented refusals of their own
        if a[0] == 'call' and a[1][0] == 'attr' and a[1][2] == 'overlaps':
            return True
        if any(x == ('attr', ('name', 'self'), '_addr_width') or x == ('attr', ('name', 'self'), 'addr_width') for x in ir.walk(a)):
            return True
        # type / sign validation of the derived window span (2**window.addr_width // ratio): the size checks of the placement
        # helper applied to a quantity that is a non-negative integer by construction -- they never fire
        span = any(x == ('attr', ('name', 'window'), 'addr_width') for x in ir.walk(a))
        if span and a[0] == 'call' and a[1] == ('name', 'isinstance') and len(a[2]) == 2 and a[2][1] == ('name', 'int'):
            return True
        if span and a[0] == 'cmp' and a[1] == '<' and (a[3] == ('const', 0) or a[2] == ('const', -1)):
            return True
        return False
    try:
        idx.find_func("MemoryMap._compute_addr_range")
        glue.arith_refusal_atoms(rep, rule, idx, "MemoryMap._compute_addr_range", ["addr % (1 << self.alignment) != 0"], allow_if=bounds,
                                 what="an explicit address is only required to be a multiple of the map's own alignment; sizes and bounds as documented")
    except Exception:
        pass                                            # the helper is gone: its refusals are read where they were opened (below)
    glue.arith_refusal_atoms(rep, rule, idx, "MemoryMap.add_resource", ["addr % (1 << self.alignment) != 0"], allow_if=bounds,
                             what="add_resource() adds no arithmetic refusal of its own")
    glue.arith_refusal_atoms(rep, rule, idx, "MemoryMap.add_window",
                             ["self.data_width % window.data_width != 0", "ratio & (ratio - 1) != 0",
                              "(1 << window.alignment) < ratio",
                              # the placement helper's test of an explicit address, should it be opened in place
                              "addr % (1 << self.alignment) != 0",
                              # the same two tests written on the dense ratio directly (under `if not sparse`)
                              "(self.data_width // window.data_width) & ((self.data_width // window.data_width) - 1) != 0",
                              "(1 << window.alignment) < (self.data_width // window.data_width)"],
                             allow_if=bounds, what="add_window() refuses only non-integer / non-power-of-two ratios and windows aligned more finely than the ratio",
                             aliases={"ratio": "1 if sparse else self.data_width // window.data_width"})
