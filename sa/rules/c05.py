"""C05 — CSR multiplexer writes: atomic, reach exactly the addressed register."""
import ast

from ..core import dl, ir
from .common import get_ctx, require_supported, check_dl
from .c04 import mux_roles, shadow_population

EXPLANATION = ("write half of csr.Multiplexer.elaborate as a template: chunk write enable under Case(A), registered "
               "register strobe exactly on the last address of the *range* (so padding counts) with the clear at lower "
               "effective priority (Switch hoisting modelled), chunk data latch, register data = its chunks, write shadow "
               "holds writable registers only, and the sharing limit flows only into the balance test of prepare()")


def run(rep, idx, tier):
    rep.explanation = EXPLANATION
    rep.assume("A2", "A3", "A4", "A6")
    rep.require("C05.1", 4)
    rep.require("C05.2", 1)
    rep.require("C05.3", 1)
    rep.require("C05.4", 1)
    rep.require("C05.5", 2)
    rep.require("C05.7", 2)
    rep.require("C05.8", 3)
    rep.require("C05.9", 3)
    rep.require("C05.10", 2)
    rep.require("C05.11", 1)
    from .c19 import identity_comparisons
    identity_comparisons(rep, idx, rule="C05.10", classes=["Multiplexer"])
    from . import glue as _g
    _g.reset_discipline(rep, "C05.10", idx, ["csr/bus:Multiplexer", "csr/bus:Multiplexer._Shadow.Chunk"])
    c = get_ctx(idx, "csr:Multiplexer.elaborate")
    rep.analysed(c.fi.site)
    rep.count("drivers", len(c.t.drivers))
    site = c.fi.site
    if not require_supported(rep, "C05.1", c):
        return
    r = mux_roles(rep, "C05.1", c, 'w')
    if r is None:
        return
    env = r.env
    last = c.eng.cond(c.parse("A == rng.stop - 1", env))
    # C05.1 chunk write enable
    ds = c.drivers_of(c.parse("chunk.w_en", env))
    if not ds or {d.domain for d in ds} != {"comb"}:
        rep.bad("C05.1", site, "chunk.w_en", "must be combinational")
    else:
        check_dl(rep, "C05.1", c, "chunk.w_en == bus.w_stb under Case(A) of a sharing register, else 0", ds, "0",
                 [(r.case, "self.bus.w_stb")], env)
    # C05.2 register strobe
    ds = c.drivers_of(c.parse("REG.element.w_stb", env))
    if not ds or {d.domain for d in ds} != {"sync"}:
        rep.bad("C05.2", site, "element.w_stb", "must be a sync register (write performed one cycle after the last chunk is written)")
    else:
        check_dl(rep, "C05.2", c, "element.w_stb' = bus.w_stb under Case(last address of the range), else 0 (one-cycle strobe)",
                 ds, dl.HOLD,
                 [(('formula', dl.f_and(last, r.case[1])), "self.bus.w_stb"), (('formula', last), "0")], env)
    # C05.3 chunk data
    ds = c.drivers_of(c.parse("chunk.data", env))
    if not ds or {d.domain for d in ds} != {"sync"}:
        rep.bad("C05.3", site, "chunk.data", "must be a sync register")
    else:
        check_dl(rep, "C05.3", c, "chunk.data' = bus.w_data when the chunk is written, else hold", ds, dl.HOLD,
                 [("chunk.w_en", "self.bus.w_data")], env)
    # C05.4 register data is the concatenation of its chunks
    tgt = c.parse("REG.element.w_data.word_select(A - rng.start, self.bus.data_width)", env)
    ds = c.drivers_of(tgt)
    others = [(d_, t, x) for d_, t, x in c.targets_matching(
        lambda t: t != tgt and ir.mentions(t, c.parse("REG.element.w_data", env)))]
    if others:
        for d_, t, x in others:
            rep.bad("C05.4", site, ir.show(t)[:100], "register write data is driven at a position other than word (A - range.start) of width "
                    "data_width", lines=[y.lineno for y in x])
    if not ds or {d.domain for d in ds} != {"comb"}:
        rep.bad("C05.4", site, "element.w_data word", "the register's write data word for this chunk is not driven combinationally")
    else:
        check_dl(rep, "C05.4", c, "element.w_data.word_select(A - range.start, data_width) == chunk.data", ds, "0",
                 [("1", "chunk.data")], env)
    # C05.5 population
    shadow_population(rep, "C05.5", c, r.SH, "writable")
    # C05.6 read and write halves do not touch each other's strobes: the w_* drivers above are all in the write loops
    for (dom, key), dsx in c.groups.items():
        t = c.tir[(dom, key)]
        if t[0] == 'attr' and t[2] in ("w_stb",) and t[1][0] == 'attr' and t[1][2] == 'element':
            foreign = [d for d in dsx if ('for', r.Lc.id) not in d.gen]
            if foreign:
                rep.bad("C05.6", site, key, "a register write strobe is driven outside the write-shadow loop", lines=[d.lineno for d in foreign])
    overlaps_taint(rep, idx)
    from . import glue
    glue.shadow_hash(rep, idx, "C05.8")
    glue.shadow_give_up_bound(rep, idx, "C05.11")
    glue.shadow_chunk_keys(rep, idx, "C05.12")
    glue.chunk_width(rep, "C05.9", idx, c, r.SH)


def _anc(parents, n):
    while n in parents:
        n = parents[n]
        yield n


def _validation_only(f, n, parents):
    """The read `n` of the sharing limit can only refuse:
    * it sits in a private validator -- a function that stores nothing, whose statements are tests, raises and returns of the
      parameter itself (or None) -- or is the argument of a call of such a validator;
    * or it is part of the value of a local flag whose every use is the test of an `if` that only raises."""
    def is_validator(fn):
        params = [a.arg for a in fn.args.args if a.arg not in ("self", "cls")]
        if len(params) != 1:
            return False
        p = params[0]
        for x in ast.walk(fn):
            if isinstance(x, (ast.Assign, ast.AugAssign, ast.AnnAssign, ast.For, ast.While, ast.With, ast.Try, ast.Yield, ast.YieldFrom)):
                return False
            if isinstance(x, ast.Return) and x.value is not None and not (
                    isinstance(x.value, ast.Name) and x.value.id == p or isinstance(x.value, ast.Constant) and x.value.value is None):
                return False
            if isinstance(x, ast.Call) and ast.unparse(x.func) not in ("isinstance", "TypeError", "ValueError", "type"):
                return False
        return any(isinstance(x, ast.Raise) for x in ast.walk(fn))
    # inside a validator
    if f.name.startswith("_") and is_validator(f.node):
        return True
    # argument of a validator call
    p = parents.get(n)
    if isinstance(p, ast.Call) and n in p.args and isinstance(p.func, ast.Attribute) and isinstance(p.func.value, ast.Name) and \
            p.func.value.id in ("self", "cls") and f.cls is not None:
        for fs in f.cls.methods.get(p.func.attr, []):
            if is_validator(fs.node):
                return True
    # a flag that only guards a raise
    a = n
    while a in parents and not isinstance(a, ast.stmt):
        a = parents[a]
    if isinstance(a, ast.Assign) and len(a.targets) == 1 and isinstance(a.targets[0], ast.Name):
        flag = a.targets[0].id
        uses = [x for x in ast.walk(f.node) if isinstance(x, ast.Name) and x.id == flag and isinstance(x.ctx, ast.Load)]
        def in_refusal_test(u):
            b = u
            while b in parents:
                b = parents[b]
                if isinstance(b, ast.If):
                    return b.body and all(isinstance(s_, ast.Raise) for s_ in b.body) and not b.orelse and any(y is u for y in ast.walk(b.test))
                if isinstance(b, ast.stmt):
                    return False
            return False
        if bool(uses) and all(in_refusal_test(u) for u in uses):
            return True
        # ... or the text of a message: a local whose every use is inside a `raise`
        def in_raise(u):
            b = u
            while b in parents:
                b = parents[b]
                if isinstance(b, ast.Raise):
                    return True
                if isinstance(b, ast.stmt):
                    return False
            return False
        if isinstance(a.value, (ast.JoinedStr, ast.BinOp, ast.Call)) and bool(uses) and all(in_raise(u) for u in uses) and \
                (isinstance(a.value, ast.JoinedStr) or any(isinstance(x, ast.JoinedStr) or (isinstance(x, ast.Constant) and isinstance(x.value, str))
                                                           for x in ast.walk(a.value))):
            return True
    return False


def overlaps_taint(rep, idx):
    """shadow_overlaps -> _Shadow.overlaps -> only the balance test of prepare()."""
    sh = idx.find_class("Multiplexer._Shadow")
    uses = []
    for name, fs in sh.methods.items():
        for f in fs:
            parents = {}
            for n in ast.walk(f.node):
                for ch in ast.iter_child_nodes(n):
                    parents[ch] = n
            for n in ast.walk(f.node):
                if isinstance(n, ast.Attribute) and n.attr == "overlaps" and isinstance(n.ctx, ast.Load):
                    p = parents.get(n)
                    uses.append((f, n, p))
    bad = []
    for f, n, p in uses:
        if f.name == "__init__":
            continue
        # reads inside the message of a raise cannot influence the generated hardware
        anc, in_raise = n, False
        chain = {}
        for x in ast.walk(f.node):
            for ch in ast.iter_child_nodes(x):
                chain[ch] = x
        while anc in chain:
            anc = chain[anc]
            if isinstance(anc, ast.Raise):
                in_raise = True
        if in_raise:
            continue
        # the limit is compared with a number of registers sharing a chunk, in prepare() or a helper it is split into; as the
        # property of a getter it may also simply be returned
        is_cmp_with_len = isinstance(p, ast.Compare) and any(isinstance(o, ast.Call) and isinstance(o.func, ast.Name) and o.func.id == "len"
                                                             for o in [p.left] + list(p.comparators))
        ok = (f.name == "prepare" and isinstance(p, ast.Compare)) or is_cmp_with_len or (f.is_property and isinstance(p, ast.Return)) or \
            f.name in ("__repr__", "__str__") or isinstance(p, ast.FormattedValue)
        if not ok:
            bad.append((f, n))
    site = sh.site
    if bad:
        for f, n in bad:
            rep.bad("C05.7", f.site, f"self.overlaps read at line {n.lineno}",
                    "the sharing limit is used outside the balance comparison of prepare(): it could change decoding, not just the shadow size")
    else:
        rep.ok("C05.7", site, "sharing limit is read only by comparisons inside prepare()",
               f"{len(uses)} read(s) of .overlaps in _Shadow")
    # the multiplexer itself only hands the limit to the shadow constructors
    mux = idx.find_class("csr:Multiplexer")
    leaks = []
    for name, fs in mux.methods.items():
        for f in fs:
            for n in ast.walk(f.node):
                if isinstance(n, ast.Name) and n.id == "shadow_overlaps" and isinstance(n.ctx, ast.Load) or \
                        isinstance(n, ast.Attribute) and n.attr in ("_shadow_overlaps", "overlaps") and isinstance(n.ctx, ast.Load):
                    # allowed: as an argument of the _Shadow constructor, or stored on self
                    leaks.append((f, n))
    okuse = 0
    for f, n in leaks:
        parents = {}
        for x in ast.walk(f.node):
            for ch in ast.iter_child_nodes(x):
                parents[ch] = x
        p = parents.get(n)
        if isinstance(p, ast.Call) and ast.unparse(p.func).endswith("_Shadow"):
            okuse += 1
        elif isinstance(p, ast.Assign) and isinstance(p.targets[0], ast.Attribute):
            okuse += 1
        elif isinstance(p, ast.Return) and f.is_property:
            okuse += 1                                  # a read-only view of the configured limit: it decides nothing
        elif f.name in ("__repr__", "__str__") or any(isinstance(a_, (ast.JoinedStr, ast.Raise)) for a_ in _anc(parents, n)):
            okuse += 1                                  # shown in a message
        elif any(isinstance(a_, ast.If) and a_.body and isinstance(a_.body[-1], ast.Raise) and not a_.orelse and
                 all(isinstance(s_, ast.Raise) or (isinstance(s_, ast.Assign) and len(s_.targets) == 1 and isinstance(s_.targets[0], ast.Name) and
                                                   isinstance(s_.value, (ast.JoinedStr, ast.Constant, ast.BinOp))) for s_ in a_.body) and
                 any(y is n for y in ast.walk(a_.test)) for a_ in _anc(parents, n)):
            okuse += 1                                  # read by the test of a refusal (`if <test>: raise`): it can only refuse
        elif _validation_only(f, n, parents):
            okuse += 1                                  # a validator that hands its argument back, or a flag that only guards a raise
        else:
            rep.bad("C05.7", f.site, f"shadow_overlaps used at line {n.lineno}", "the sharing limit must only be passed to the shadow registers")
    rep.ok("C05.7", mux.site, "Multiplexer only forwards shadow_overlaps to its shadows", f"{okuse} forwarding use(s)", nontrivial=False)
