"""C01 — the memory map tells the truth about the hardware, end to end (composition glue only)."""
import ast

from ..core import ir
from .common import get_ctx, get_ctor, get_fn, require_supported, kwarg
from .c07 import guards_with_context
from . import glue, apirules, c04

EXPLANATION = ("composition glue between the memory map and the generated decoders: every decoding component decodes with the "
               "map it publishes, registries are keyed by the window's own map, wrappers republish the map of the component "
               "they connect, the Wishbone-to-CSR address is formed low-part first with widths that add up, the bus/map geometry "
               "tie of both memory_map setters, forwarded bits = don't-care bits (three-site agreement on the granularity "
               "bits), window_patterns() uses one width expression and the window's own range, and the shadow-register address "
               "hash is its own inverse on the low bits (modular algebra over 2**k)")


def run(rep, idx, tier):
    rep.explanation = EXPLANATION
    rep.assume("A1", "A2", "A3", "A4", "A6")
    rep.require("C01.1", 9)
    rep.require("C01.2", 8)
    rep.require("C01.3", 9)
    rep.require("C01.4", 2)
    rep.require("C01.5", 8)
    rep.require("C01.6", 3)
    rep.require("C01.7", 3)
    rep.require("C01.8", 3)
    decoding_components(rep, idx)
    wrappers(rep, idx)
    bridge_registers(rep, idx)
    glue.write_once_handles(rep, "C01.3", idx, "csr/reg:Bridge")
    bridge(rep, idx)
    setters(rep, idx)
    forwarded_bits(rep, idx)
    window_patterns(rep, idx)
    glue.shadow_hash(rep, idx, "C01.8")
    from .c19 import identity_comparisons
    identity_comparisons(rep, idx, rule="C01.1", classes=["Multiplexer", "Decoder", "WishboneCSRBridge", "MemoryMap"])


# ---- C01.1 / C01.2 -------------------------------------------------------------------------------------
def decoding_components(rep, idx):
    for spec, subj, addspec in (("csr:Decoder", "self.bus.addr", "csr:Decoder.add"), ("wishbone:Decoder", "self.bus.adr", "wishbone:Decoder.add")):
        c = get_ctx(idx, spec + ".elaborate")
        rep.analysed(c.fi.site)
        if not require_supported(rep, "C01.1", c):
            continue
        r = glue.decoder_roles(rep, "C01.1", c, subj)
        if r is None:
            continue
        rep.ok("C01.1", c.fi.site, "Case patterns come from self.bus.memory_map.window_patterns()",
               f"loop at line {r.L.lineno}; Case pattern {ir.show(r.case_pat)}")
        def from_pat(e):
            return e == r.pat or (e[0] == 'sub' and e[1] == r.pat) or (e[0] == 'phi' and from_pat(e[2]) and from_pat(e[3]))
        derived = from_pat(r.case_pat)
        rep.check(derived, "C01.1", c.fi.site, "the Case pattern is (a slice of) the pattern of the same window_patterns() tuple",
                  f"Case uses {ir.show(r.case_pat)}")
        rep.ok("C01.2", c.fi.site, "the subordinate is looked up by the map at position 0 of the same tuple",
               f"lookup {ir.show(r.sub)}")
        reg_ok = r.registry == c.parse("self._subs")
        rep.form(reg_ok, "C01.2", c.fi.site, "elaborate() reads the registry that add() fills", f"registry is {ir.show(r.registry)}")
        ctor = get_ctor(idx, spec)
        mm = ctor.stored("self.bus.memory_map")
        rep.check(mm is not None and mm[0] == 'call' and ir.show(mm[1]).endswith("MemoryMap"), "C01.1", ctor.fi.site,
                  "the decoder publishes a map of its own on its bus", f"self.bus.memory_map = {ir.show(mm) if mm else None}")
        glue.registry_and_window(rep, "C01.2", idx, idx.find_func(addspec), ())
    # the register multiplexer
    c = get_ctx(idx, "csr:Multiplexer.elaborate")
    rep.analysed(c.fi.site)
    if require_supported(rep, "C01.1", c):
        for half, access in (('r', "readable"), ('w', "writable")):
            r = c04.mux_roles(rep, "C01.1", c, half)
            if r is not None:
                c04.shadow_population(rep, "C01.1", c, r.SH, access)
        ctor = get_ctor(idx, "csr:Multiplexer")
        mm = ctor.stored("self.bus.memory_map")
        rep.check(mm == ('name', 'memory_map'), "C01.1", ctor.fi.site, "the multiplexer publishes the map it was given",
                  f"self.bus.memory_map = {ir.show(mm) if mm else None}")


# ---- C01.3 ---------------------------------------------------------------------------------------------
def wrappers(rep, idx):
    for spec, port in (("gpio:Peripheral", "bus"), ("EventMonitor", "bus"), ("csr/reg:Bridge", "bus")):
        ctor = get_ctor(idx, spec)
        c = get_ctx(idx, ctor.fi.cls.method("elaborate"))
        rep.analysed(ctor.fi.site, c.fi.site)
        site = c.fi.site
        pub = ctor.stored(f"self.{port}.memory_map")
        if pub is None:
            rep.bad("C01.3", ctor.fi.site, f"{spec}: published map", f"self.{port}.memory_map is never assigned")
            continue
        # which inner component does the published map belong to?
        inner = None
        if pub[0] == 'attr' and pub[2] == 'memory_map' and pub[1][0] == 'attr' and pub[1][1][0] == 'attr':
            inner = pub[1][1]                           # self._x  of  self._x.bus.memory_map
            inner_port = pub[1][2]
        else:
            for key, (val, gen, ln) in ctor.stores.items():
                if val[0] == 'call' and val[2] and val[2][0] == pub and key.startswith("self._"):
                    inner = ir.parse(key)
                    inner_port = "bus"
        if inner is None:
            rep.unk("C01.3", ctor.fi.site, f"{spec}: published map", f"cannot relate {ir.show(pub)[:80]} to an inner component")
            continue
        rep.ok("C01.3", ctor.fi.site, f"{spec} republishes the map of {ir.show(inner)}", f"self.{port}.memory_map = {ir.show(pub)[:80]}")
        want_inner_bus = ('attr', inner, inner_port)
        hits = []
        for args, gen, dsl_, ln in c.t.connects:
            na = [c.norm(a) for a in args]
            flat = []
            for a in na:
                flat.append(a[2][0] if a[0] == 'call' and a[1] == ('name', 'flipped') and a[2] else a)
            if c.parse(f"self.{port}") in flat and want_inner_bus in flat:
                hits.append(ln)
        if hits:
            rep.ok("C01.3", site, f"{spec}: self.{port} is connected to the bus of the component whose map is published", f"connect() at line {hits[0]}")
        else:
            # wired member by member?  then some driver assigns a member of the inner bus from the same member of the port
            by_hand = [d_ for d_ in c.t.drivers
                       if any(x == want_inner_bus or x == c.parse(f"self.{port}") for x in ir.walk(c.norm(d_.target))) and
                       any(x == want_inner_bus or x == c.parse(f"self.{port}") for x in ir.walk(c.norm(d_.value)))]
            if by_hand or getattr(c.t, "unsupported", None):
                rep.unk("C01.3", site, f"{spec}: self.{port} is connected to the bus of the component whose map is published",
                        f"no connect(); {len(by_hand)} assignment(s) wire members of self.{port} and {ir.show(want_inner_bus)} by hand, "
                        "whose completeness the rule does not derive")
            else:
                rep.bad("C01.3", site, f"{spec}: self.{port} is connected to the bus of the component whose map is published",
                        f"no connect(m, self.{port}, {ir.show(want_inner_bus)}) (in either orientation) and no assignment between the two")
        subs = [c.norm(v) for _, v, _, _ in c.t.submodules]
        rep.check(inner in subs, "C01.3", site, f"{spec}: that component is a submodule", f"submodules: {[ir.show(s) for s in subs][:5]}")


def bridge_registers(rep, idx):
    """csr.Bridge: every register the published map lists is elaborated -- a submodule per resource, unconditionally."""
    c = get_ctx(idx, "csr/reg:Bridge.elaborate")
    site = c.fi.site
    rep.analysed(site)
    if not require_supported(rep, "C01.3", c):
        return
    RES = c.parse("self.bus.memory_map.resources()")
    loops = [L for L in c.t.loops.values() if c.norm(L.iter) == RES or (L.seq is not None and c.norm(L.seq) == RES)]
    # loops that only compute names (a comprehension over the same resources) register nothing
    loops = [L for L in loops if any(('for', L.id) in gen for _, v, gen, _ in c.t.submodules)] or loops
    if len(loops) != 1:
        rep.unk("C01.3", site, "csr.Bridge: loop over the resources of the published map", f"found {len(loops)} such loops")
        return
    L = loops[0]
    regs = [('item', L.id, (0,)), c.norm(('sub', ('sub', L.seq, ('idx', L.id)), ('const', 0))) if L.seq is not None else None,
            ('item', L.id, (1, 0))]
    hits = [(v, gen) for _, v, gen, _ in c.t.submodules if c.norm(v) in regs]
    ok = any(tuple(fr for fr in gen) == (('for', L.id),) for v, gen in hits)
    if not ok:
        # registered in both arms of one generation-time choice (two naming schemes): still every register, always
        arms = {}
        for v, gen in hits:
            if len(gen) == 2 and gen[0] == ('for', L.id) and gen[1][0] == 'pyif':
                arms.setdefault(ir.show(c.norm(gen[1][1])), set()).add(gen[1][2])
        ok = any(pols == {True, False} for pols in arms.values())
    rep.check(ok, "C01.3", site, "csr.Bridge: every register of the published map is a submodule, unconditionally",
              f"submodule registrations of the loop element: {[[ir.show(fr[1]) if fr[0] == 'pyif' else fr for fr in gen] for v, gen in hits]}")


# ---- C01.4 ---------------------------------------------------------------------------------------------
def bridge(rep, idx):
    c = get_ctx(idx, "WishboneCSRBridge.elaborate")
    if not require_supported(rep, "C01.4", c):
        return
    env = {"wb": c.parse("self.wb_bus"), "csr": c.parse("self.csr_bus")}
    sws = [s for s in c.t.switches.values() if c.norm(s)[0] == 'sig']
    if len(sws) != 1:
        rep.unk("C01.4", c.fi.site, "sequencer", f"{len(sws)} candidate sequencer registers")
        return
    glue.bridge_address(rep, "C01.4", c, env, c.norm(sws[0]))
    ctor = get_ctor(idx, "WishboneCSRBridge")
    adds = [x for x, gen, ln in ctor.calls_named("add_window")]
    ok = len(adds) == 1 and adds[0][2] and adds[0][2][0] == ctor.parse("csr_bus.memory_map") and ctor.stored("self._csr_bus") == ('name', 'csr_bus')
    rep.check(ok, "C01.4", ctor.fi.site, "the window published is the map of the CSR bus the bridge drives",
              f"add_window({ir.show(adds[0][2][0]) if adds and adds[0][2] else None}); driven bus is {ir.show(ctor.stored('self._csr_bus') or ('const', None))}")


# ---- C01.5 ---------------------------------------------------------------------------------------------
def setters(rep, idx, rule="C01.5", only=None):
    specs = [
        ("csr/bus:Interface.memory_map", ["memory_map.addr_width != self.addr_width", "memory_map.data_width != self.data_width"]),
        ("wishbone/bus:Interface.memory_map", ["memory_map.data_width != self.granularity",
                                             "memory_map.addr_width != max(1, self.addr_width + exact_log2(self.data_width // self.granularity))"]),
    ]
    from .common import refuses
    for spec, tests in specs:
        if only is not None and not spec.startswith(only):
            continue
        fi = idx.find_func(spec, "setter")
        c = get_fn(idx, spec, "setter")
        site = fi.site
        rep.analysed(site)
        fg = apirules.graph(idx, fi)
        g = fg.g
        store = [n.id for n in g.nodes if n.kind == "stmt" and isinstance(n.ast, ast.Assign) and fg.text(n.id).startswith("self._memory_map =")]
        if len(store) != 1:
            rep.unk(rule, site, "self._memory_map = memory_map", f"{len(store)} store(s)")
            continue
        for t_, exc in [("not isinstance(memory_map, MemoryMap)", "TypeError")] + [(x, "ValueError") for x in tests]:
            from .common import check_refusal
            check_refusal(rep, rule, c, f"setter refuses a map unless not ({t_})", t_, exc)
        # every raise point (own or in a validation helper) comes before the store
        after = g.reachable([store[0]])
        late = [n.id for n in g.nodes if n.id in after and n.id != store[0] and fg.raises(n.id)]
        rep.check(not late, rule, site, "every refusal precedes the store", f"raise reachable after the store at line(s) {[g.nodes[x].lineno for x in late]}")
        rep.check(c.stores.get("self._memory_map", (None,))[0] == ('name', 'memory_map'), rule, site, "the map stored is the map checked",
                  "stored value differs", nontrivial=False)


# ---- C01.6 ---------------------------------------------------------------------------------------------
def forwarded_bits(rep, idx):
    gb = "exact_log2(data_width // granularity)"
    # (a) Decoder.__init__: map address width = addr_width + granularity bits
    ctor = get_ctor(idx, "wishbone:Decoder")
    mm = ctor.stored("self.bus.memory_map")
    aw = kwarg(mm, 'addr_width') if mm is not None and mm[0] == 'call' else None
    G = kwarg(mm, 'data_width') if mm is not None and mm[0] == 'call' else None
    want = ctor.norm(ir.parse("max(1, addr_width + exact_log2(data_width // G))", {"G": G})) if G is not None else None
    # the same geometry read back from the bus the constructor has just declared with these very parameters
    decl = idx.members(ctor.fi.cls).get("bus")
    if aw is not None and aw != want and decl and decl[0][1][0] == 'call':
        kws = dict(decl[0][1][3])
        if all(kws.get(p_) == ('name', p_) for p_ in ("addr_width", "data_width", "granularity")):
            back = {('name', p_): ir.parse(f"self.bus.{p_}") for p_ in ("addr_width", "data_width", "granularity")}
            want_bus = ctor.norm(ir.subst(ir.parse("max(1, addr_width + exact_log2(data_width // granularity))"), lambda x: back.get(x)))
            if aw == want_bus and G == ir.parse("self.bus.granularity"):
                want = want_bus
    rep.check(aw is not None and aw == want, "C01.6", ctor.fi.site,
              "decoder map address width = bus address width + exact_log2(data_width // granularity)", f"addr_width={ir.show(aw) if aw else None}")
    # (b) the pattern trimming in elaborate() (checked in C07) uses the same expression on the bus; (c) the setter too (C01.5).
    c = get_ctx(idx, "wishbone:Decoder.elaborate")
    r = glue.decoder_roles(rep, "C01.6", c, "self.bus.adr")
    if r is not None:
        glue.trimmed_pattern(rep, "C01.6", c, r)
    # csr.Decoder: forwarded slice width = the subordinate's address width = the window's address width (don't-care run)
    cd = get_ctx(idx, "csr:Decoder.elaborate")
    rd = glue.decoder_roles(rep, "C01.6", cd, "self.bus.addr")
    if rd is not None:
        ds = cd.drivers_of(cd.parse("sub.addr", rd.env))
        vals = {cd.norm(d.value) for d in ds}
        want = cd.parse("self.bus.addr[:sub.addr_width]", rd.env)
        rep.check(vals == {want}, "C01.6", cd.fi.site, "CSR decoder forwards exactly the low sub.addr_width address bits (the pattern's don't-care bits)",
                  f"forwards {[ir.show(v) for v in vals]}")


# ---- C01.7 ---------------------------------------------------------------------------------------------
def window_patterns(rep, idx):
    c = get_fn(idx, "MemoryMap.window_patterns")
    site = c.fi.site
    rep.analysed(site)
    loops = [L for L in c.t.loops.values() if c.norm(L.iter) == c.parse("self.windows()")]
    if len(loops) != 1 or not c.t.yields:
        rep.unk("C01.7", site, "window_patterns() shape", "no single loop over self.windows() with a yield")
        return
    L = loops[0]
    win = ('item', L.id, (0,))
    start, stop = ('item', L.id, (2, 0)), ('item', L.id, (2, 1))
    env = {"win": win, "start": start, "stop": stop}
    y = c.norm(c.t.yields[0][0])
    if not (y[0] == 'tuple' and len(y[1]) == 3 and y[1][2][0] == 'tuple'):
        rep.unk("C01.7", site, "yielded value", ir.show(y)[:100])
        return
    pattern = y[1][2][1][0]
    rep.check(y[1][0] == win and y[1][1] == ('item', L.id, (1,)), "C01.7", site, "each pattern is reported with its own window and name",
              f"yields {ir.show(y)[:100]}", nontrivial=False)
    txt = ir.show(pattern)
    # collect: width of the don't-care run, the shift, the subtrahend of const_bits
    W = c.parse("win.addr_width", env)
    dontcare = [x for x in ir.walk(pattern) if x[0] in ('bin', 'nary') and "'-'" in ir.show(x) and x[1] == '*']
    widths = set()
    for x in dontcare:
        ops = x[2] if x[0] == 'nary' else (x[2], x[3])
        for o in ops:
            if o != ('const', '-'):
                widths.add(o)
    shifts = set()
    bases = set()
    for x in ir.walk(pattern):
        if x[0] == 'bin' and x[1] == '>>':
            shifts.add(x[3])
            bases.add(x[2])
        # normal form of a right shift: x // 2**k
        if x[0] == 'bin' and x[1] == '//' and x[3][0] == 'bin' and x[3][1] == '**' and x[3][2] == ('const', 2):
            shifts.add(x[3][3])
            bases.add(x[2])
    subtr = set()
    for cond, gen, ln in c.t.conds:
        for x in ir.walk(c.norm(cond)):
            if x[0] == 'lin':
                for t, k in x[2]:
                    if k == -1:
                        subtr.add(t)
    for x in ir.walk(pattern):
        if x[0] == 'lin':
            for t, k in x[2]:
                if k == -1 and 'addr_width' in ir.show(t):
                    subtr.add(t)
    allw = widths | shifts | subtr
    if not allw or not bases:
        # another way of producing the pattern (bit by bit, through a helper generator ...): nothing to compare
        rep.unk("C01.7", site, "shift amount, don't-care count and constant-bit count all use the window's address width",
                f"the pattern `{txt[:80]}` is not built from a shifted constant part and a run of '-': its agreement with the window's range is not derived")
        return
    rep.check(allw == {W}, "C01.7", site, "shift amount, don't-care count and constant-bit count all use the window's address width",
              f"don't-care run {[ir.show(w) for w in widths]}, shift {[ir.show(s) for s in shifts]}, subtracted from addr_width {[ir.show(s) for s in subtr]}: "
              "they must be one expression or the pattern matches addresses the map does not assign to the window")
    ok_base = bool(bases) and all(b in (start, c.norm(('bin', '-', stop, ('const', 1)))) for b in bases)
    rep.check(ok_base, "C01.7", site, "constant bits are taken from the range of that same window",
              f"shifted value(s): {[ir.show(b) for b in bases]}")
