"""CFG-based rules for the book-keeping APIs: failure atomicity, frozen guards, must-call, monotone flags."""
import ast

from ..core import cfg as cfgmod
from ..core import ir
from ..core.effects import get_effects, IDEMPOTENT_VALIDATORS

OBSERVABLE = ('self', 'param', 'global')


class FnGraph:
    """CFG of one function with per-node effects."""

    def __init__(self, idx, fi):
        self.idx = idx
        self.fi = fi
        self.ef = get_effects(idx)
        self.eff = {}

        def may_raise(node, kind):
            e = self.ef.node_effects(fi, node)
            return bool(e.raises)
        def noreturn(call):
            try:
                kind = self.ef.resolve_call(call, fi, self.ef.guard_types(fi))
            except Exception:
                return False
            callee = kind[1] if kind[0] == 'func' else None
            if callee is None or isinstance(callee, str) or callee.node is fi.node:
                return False
            body = [s for s in callee.node.body if not (isinstance(s, ast.Expr) and isinstance(s.value, ast.Constant))]
            return bool(body) and isinstance(body[-1], ast.Raise) and \
                not any(isinstance(n, (ast.Return, ast.Yield, ast.YieldFrom)) for n in ast.walk(callee.node))
        self.g = cfgmod.build(fi.node, may_raise, noreturn)
        for n in self.g.nodes:
            if n.ast is not None and n.kind in ("stmt", "test", "iter", "with"):
                if isinstance(n.ast, (ast.FunctionDef, ast.ClassDef)):
                    continue
                self.eff[n.id] = self.ef.node_effects(fi, n.ast)
        self.types = self._flow_types()

    # ---- tiny flow-sensitive typing for idempotent validators (MemoryMap.Name) ----------------
    def _flow_types(self):
        g = self.g
        state = {g.entry.id: {}}
        work = [g.entry.id]
        TOP = None

        def join(a, b):
            if a is None:
                return dict(b)
            out = {}
            for k in set(a) & set(b):
                x, y = a[k], b[k]
                out[k] = x if x == y else ('TN' if {x, y} <= {'T', 'N', 'TN'} else None)
                if out[k] is None:
                    del out[k]
            return out

        def transfer(n, st, label):
            st = dict(st)
            node = n.ast
            # `not <test>`: the same test with the edges exchanged
            while n.kind == "test" and isinstance(node, ast.UnaryOp) and isinstance(node.op, ast.Not) and label in ("true", "false"):
                node = node.operand
                label = "false" if label == "true" else "true"
            if n.kind == "stmt" and isinstance(node, ast.Assign):
                for t in node.targets:
                    for x in ast.walk(t):
                        if isinstance(x, ast.Name):
                            st.pop(x.id, None)
                if len(node.targets) == 1 and isinstance(node.targets[0], ast.Name):
                    v = node.value
                    if isinstance(v, ast.Call):
                        c = self.idx.resolve_class(ir.from_ast(v.func, {}), self.fi.module, self.fi.cls)
                        if c is not None and c.qual in IDEMPOTENT_VALIDATORS:
                            st[node.targets[0].id] = 'T'
                    elif isinstance(v, ast.Constant) and v.value is None:
                        st[node.targets[0].id] = 'N'
            elif n.kind == "stmt" and isinstance(node, (ast.AugAssign, ast.AnnAssign, ast.Delete)):
                for x in ast.walk(node):
                    if isinstance(x, ast.Name) and isinstance(x.ctx, (ast.Store, ast.Del)):
                        st.pop(x.id, None)
            elif n.kind == "iter":
                pass
            elif n.kind == "test" and isinstance(node, ast.Compare) and len(node.ops) == 1 and \
                    isinstance(node.left, ast.Name) and isinstance(node.comparators[0], ast.Constant) and \
                    node.comparators[0].value is None and label in ("true", "false"):
                is_none = isinstance(node.ops[0], ast.Is) == (label == "true")
                if isinstance(node.ops[0], (ast.Is, ast.IsNot)):
                    v = node.left.id
                    cur = st.get(v)
                    if is_none:
                        if cur == 'T':
                            return None             # infeasible edge
                        st[v] = 'N'
                    elif cur == 'N':
                        return None                 # infeasible edge
                    elif cur == 'TN':
                        st[v] = 'T'
            return st

        out_state = {}
        while work:
            nid = work.pop()
            n = g.nodes[nid]
            for m, lab in g.succ[nid]:
                new = transfer(n, state[nid], lab)
                if new is None:
                    continue
                # loop targets rebind
                if m in state:
                    j = join(state[m], new)
                    if j != state[m]:
                        state[m] = j
                        work.append(m)
                else:
                    state[m] = new
                    work.append(m)
        return state

    # ---- node classification --------------------------------------------------------------------
    def writes(self, nid, roots=OBSERVABLE):
        e = self.eff.get(nid)
        if e is None:
            return []
        return sorted(w for w in e.writes if w[0] in roots)

    def raises(self, nid):
        """Raise sites of the node that survive the flow-sensitive type facts."""
        e = self.eff.get(nid)
        if e is None:
            return []
        st = self.types.get(nid, {})
        out = []
        for r in e.raises:
            if r.cond is not None and r.cond[0] == 'unless_typed' and st.get(r.cond[1]) == 'T':
                continue
            out.append(r)
        return out

    def text(self, nid):
        n = self.g.nodes[nid]
        try:
            return ast.unparse(n.ast).split("\n")[0]
        except Exception:
            return n.kind

    def calls_in(self, nid):
        n = self.g.nodes[nid]
        if n.ast is None:
            return []
        return [c for c in ast.walk(n.ast) if isinstance(c, ast.Call)]


class _Rooted:
    """A function graph whose mutation points are restricted to some roots."""
    def __init__(self, fg, roots):
        self._fg, self._roots = fg, roots

    def writes(self, nid, roots=None):
        return self._fg.writes(nid, self._roots)

    def __getattr__(self, name):
        return getattr(self._fg, name)


_GCACHE = {}


def graph(idx, fi):
    key = (id(idx), fi.site, fi.is_setter)
    if key not in _GCACHE:
        _GCACHE[key] = FnGraph(idx, fi)
    return _GCACHE[key]


# -------------------------------------------------------------------------------------------------

def _writes_after_yield(idx, fi, with_stmt):
    """Every context manager of the `with` is a call of a generator-based context manager of the class whose stores and mutating
    calls all come after its (single, top-level) `yield`, and which has no try / finally around the yield."""
    for item in with_stmt.items:
        c = item.context_expr
        if not (isinstance(c, ast.Call) and isinstance(c.func, ast.Attribute) and isinstance(c.func.value, ast.Name) and
                c.func.value.id in ("self", "cls") and fi.cls is not None):
            return False
        h = idx.lookup_method(fi.cls, c.func.attr)
        if h is None or not any(d.endswith("contextmanager") for d in h.decorators):
            return False
        body = [s_ for s_ in h.node.body if not (isinstance(s_, ast.Expr) and isinstance(s_.value, ast.Constant))]
        yi = [i for i, s_ in enumerate(body) if isinstance(s_, ast.Expr) and isinstance(s_.value, ast.Yield)]
        if len(yi) != 1 or any(isinstance(x, (ast.Yield, ast.YieldFrom)) for i, s_ in enumerate(body) if i != yi[0] for x in ast.walk(s_)):
            return False
        for s_ in body[:yi[0]]:
            for x in ast.walk(s_):
                if isinstance(x, (ast.Attribute, ast.Subscript)) and isinstance(x.ctx, (ast.Store, ast.Del)):
                    return False
                if isinstance(x, ast.Call) and isinstance(x.func, ast.Attribute) and x.func.attr in (
                        "append", "add", "update", "pop", "insert", "extend", "remove", "clear", "setdefault", "freeze"):
                    return False
    return True


def atomic(rep, rule, idx, fi, verified=(), enumerate_paths=False, _depth=0, roots=OBSERVABLE):
    """Validate-before-mutate: no raise point is reachable after a mutation of observable state.  (`roots`: what counts as
    observable -- for a constructor only the objects handed in, the half-built instance is dropped with the exception.)"""
    fg = graph(idx, fi)
    g = fg.g
    rep.analysed(fi.site)
    if roots is not OBSERVABLE:
        fg = _Rooted(fg, roots)
    muts = [n.id for n in g.nodes if fg.writes(n.id)]
    raisers = {n.id: fg.raises(n.id) for n in g.nodes}
    raisers = {k: v for k, v in raisers.items() if v}
    rep.count("cfg_nodes", len(g.nodes))
    rep.count("mutation_points", len(muts))
    rep.count("raise_points", len(raisers))
    ok = True
    for m in muts:
        # same node both mutates and raises: only fine if the callee is itself verified atomic
        if m in raisers and isinstance(g.nodes[m].ast, ast.Raise):
            # a raise statement whose own expression (its message, say) changes state: the call fails *after* the change
            rep.bad(rule, fi.site, fg.text(m)[:90], "the raise statement itself mutates observable state while it builds the exception ("
                    + ", ".join(".".join((w[1],) + w[2]) for w in fg.writes(m)[:3]) + "): the refused call is not without effect",
                    mutation=fg.text(m))
            ok = False
            continue
        if m in raisers:
            callee_sites = {r.site for r in raisers[m]}
            if not any(any(s.endswith(v) for v in verified) for s in callee_sites):
                # decide the callees themselves: when each of them validates before it mutates, so does this statement as a unit
                callees = []
                for cl in fg.calls_in(m):
                    f_ = cl.func
                    if isinstance(f_, ast.Attribute) and isinstance(f_.value, ast.Name) and f_.value.id == "self" and fi.cls is not None:
                        t_ = idx.lookup_method(fi.cls, f_.attr)
                        if t_ is not None and t_.node is not fi.node:
                            callees.append(t_)
                resolved = {c_.site for c_ in callees}
                if _depth < 2 and callees and any(s in resolved for s in callee_sites):
                    sub_ok = all(atomic(rep, rule, idx, c_, verified, False, _depth + 1, roots) for c_ in callees)
                    if not sub_ok:
                        ok = False
                        continue
                else:
                    rep.unk(rule, fi.site, fg.text(m), "statement both mutates observable state and may raise; "
                            "the order inside the callee is not covered by a verified-atomic summary")
                    ok = False
                    continue
        after = g.reachable([s for s, lab in g.succ[m] if lab != "exc"])
        bad = sorted(r for r in raisers if r in after and not (r == m))
        # `with self._recording(x): <body>` where _recording is a @contextmanager generator that does all its writing *after* its
        # `yield`: the writes happen when the body has completed normally; an exception in the body passes through the yield
        # and nothing after it runs.  Raise points inside the body therefore come *before* these writes.
        wnode = g.nodes[m]
        if wnode.kind == "with" and isinstance(wnode.ast, ast.With) and _writes_after_yield(idx, fi, wnode.ast):
            inside = {id(x) for b_ in wnode.ast.body for x in ast.walk(b_)}
            bad = [r for r in bad if not (g.nodes[r].ast is not None and id(g.nodes[r].ast) in inside)]
        for r in bad:
            rs = raisers[r][0]
            rep.bad(rule, fi.site, fg.text(r),
                    f"may raise {rs.exc} (from {rs.site}) after observable state was mutated by "
                    f"`{fg.text(m)}` ({', '.join('.'.join((w[1],) + w[2]) for w in fg.writes(m)[:3])})",
                    mutation=fg.text(m))
            ok = False
    if ok:
        rep.ok(rule, fi.site, "validate before mutate",
               f"{len(muts)} mutation point(s), {len(raisers)} raise point(s): no raise reachable after a mutation",
               mutations=[fg.text(m) for m in muts][:12])
    if enumerate_paths:
        paths, complete = g.paths()
        nbad = 0
        for p in paths:
            seen_mut = False
            for nid in p:
                if seen_mut and nid in raisers and p[-1] == g.raise_exit.id and p[p.index(nid) + 1:] and \
                        p[p.index(nid) + 1] == g.raise_exit.id:
                    nbad += 1
                    break
                if nid in muts:
                    seen_mut = True
        rep.count("cfg_paths", len(paths))
        rep.check(nbad == 0 or not ok, rule, fi.site, "validate before mutate (explicit path enumeration)",
                  f"{len(paths)} acyclic path(s) enumerated{'' if complete else ' (truncated)'}; {nbad} raise after mutation")
    return ok


def _reads_flag(test, flag):
    """Does the test expression read self.<flag>?  Returns polarity: True if test is true when the flag is set."""
    t = test
    neg = False
    while isinstance(t, ast.UnaryOp) and isinstance(t.op, ast.Not):
        neg = not neg
        t = t.operand
    if isinstance(t, ast.Attribute) and isinstance(t.value, ast.Name) and t.value.id == "self" and t.attr == flag:
        return not neg
    if isinstance(t, ast.Compare) and len(t.ops) == 1 and isinstance(t.left, ast.Attribute) and \
            isinstance(t.left.value, ast.Name) and t.left.value.id == "self" and t.left.attr == flag and \
            isinstance(t.comparators[0], ast.Constant) and isinstance(t.comparators[0].value, bool):
        pos = t.comparators[0].value
        if isinstance(t.ops[0], (ast.Is, ast.Eq)):
            return pos != neg
        if isinstance(t.ops[0], (ast.IsNot, ast.NotEq)):
            return (not pos) != neg
    return None


def barrier_edges(idx, fi, flag, depth=2):
    """Edges whose traversal implies `not self.<flag>`: (node id, label)."""
    fg = graph(idx, fi)
    g = fg.g
    out = []
    for n in g.nodes:
        if n.kind == "test":
            pol = _reads_flag(n.ast, flag)
            if pol is not None:
                out.append((n.id, "false" if pol else "true"))
        elif n.kind == "stmt" and depth > 0 and isinstance(n.ast, ast.Expr) and isinstance(n.ast.value, ast.Call):
            call = n.ast.value
            kind = fg.ef.resolve_call(call, fi, fg.ef.guard_types(fi))
            if kind[0] == 'func' and kind[2] is not None and isinstance(kind[2], ast.Name) and kind[2].id == "self":
                callee = kind[1]
                if is_barrier_helper(idx, callee, flag, depth - 1):
                    out.append((n.id, "next"))
    return out


def is_barrier_helper(idx, fi, flag, depth):
    """Every entry -> normal-exit path of fi crosses a barrier edge, and fi mutates nothing."""
    fg = graph(idx, fi)
    g = fg.g
    if any(fg.writes(n.id) for n in g.nodes):
        return False
    edges = set(barrier_edges(idx, fi, flag, depth))
    if not edges:
        return False
    return g.exit.id not in _reach_without(g, edges)


def _reach_without(g, edges):
    seen = set()
    work = [g.entry.id]
    while work:
        n = work.pop()
        if n in seen:
            continue
        seen.add(n)
        for m, lab in g.succ[n]:
            if (n, lab) in edges:
                continue
            work.append(m)
    return seen


def frozen_guard(rep, rule, idx, fi, flag="_frozen"):
    """Every mutation of observable state is reachable only across an edge that implies `not frozen`,
    and the frozen side of that test raises without mutating."""
    fg = graph(idx, fi)
    g = fg.g
    rep.analysed(fi.site)
    edges = set(barrier_edges(idx, fi, flag))
    muts = [n.id for n in g.nodes if fg.writes(n.id)]
    if not muts:
        rep.unk(rule, fi.site, "frozen guard", "function has no mutation point; the rule has nothing to protect")
        return False
    if not edges:
        rep.bad(rule, fi.site, f"if self.{flag}: raise", f"no test of self.{flag} guards the {len(muts)} mutation point(s): "
                "a frozen object would accept the call")
        return False
    reach = _reach_without(g, edges)
    leaked = [m for m in muts if m in reach]
    for m in leaked:
        rep.bad(rule, fi.site, fg.text(m), f"mutation is reachable without passing the `not self.{flag}` edge of the guard")
    # frozen side: must not reach the normal exit nor a mutation
    frozen_side_ok = True
    for (nid, lab) in edges:
        n = g.nodes[nid]
        if n.kind != "test":
            continue
        other = [m for m, l2 in g.succ[nid] if l2 != lab and l2 != "exc"]
        sub = g.reachable(other)
        if g.exit.id in sub or any(m in sub for m in muts):
            # reachable through the other side: it must again cross a barrier (e.g. nested tests); check strictly
            sub2 = set()
            work = list(other)
            while work:
                x = work.pop()
                if x in sub2:
                    continue
                sub2.add(x)
                for m, l2 in g.succ[x]:
                    if (x, l2) not in edges:
                        work.append(m)
            if g.exit.id in sub2:
                frozen_side_ok = False
                rep.bad(rule, fi.site, fg.text(nid), f"when self.{flag} is set the call can still complete normally (no raise on the frozen side)")
    if not leaked and frozen_side_ok:
        rep.ok(rule, fi.site, f"frozen guard dominates {len(muts)} mutation point(s)",
               f"guard edges: {sorted((fg.text(n), l) for n, l in edges)}")
        return True
    return False


def monotone_flag(rep, rule, idx, cls, flag="_frozen"):
    """self.<flag> is assigned True only, except in __init__."""
    n = 0
    family = [cls] + list(idx.bases_of(cls))            # a mixin of the package may hold the flag's only writer
    for name, fs in [(nm, fs_) for k in family for nm, fs_ in k.methods.items()]:
        for f in fs:
            for st in ast.walk(f.node):
                if isinstance(st, (ast.Assign, ast.AugAssign)):
                    targets = st.targets if isinstance(st, ast.Assign) else [st.target]
                    for t in targets:
                        if isinstance(t, ast.Attribute) and t.attr == flag and isinstance(t.value, ast.Name):
                            n += 1
                            v = st.value
                            is_true = isinstance(v, ast.Constant) and v.value is True
                            if name == "__init__":
                                continue
                            rep.check(is_true and isinstance(st, ast.Assign), rule, f.site, f"self.{flag} = {ast.unparse(v)}",
                                      f"the {flag} flag must only ever be set to True after construction (monotone typestate)")
    for f in idx.all_functions():
        if f.cls in family:
            continue
        for st in ast.walk(f.node):
            if isinstance(st, (ast.Assign, ast.AugAssign)):
                targets = st.targets if isinstance(st, ast.Assign) else [st.target]
                for t in targets:
                    if isinstance(t, ast.Attribute) and t.attr == flag and not (isinstance(t.value, ast.Name) and t.value.id == "self"):
                        rep.bad(rule, f.site, ast.unparse(st), f"{flag} of another object is written directly (bypasses freeze())")
    return n


def must_call(rep, rule, idx, fi, pred, what, exits="normal"):
    """Some call satisfying pred(call ast, FnGraph) lies on every path from entry to the normal exit."""
    fg = graph(idx, fi)
    g = fg.g
    rep.analysed(fi.site)
    hits = [n.id for n in g.nodes if any(pred(c, fg) for c in fg.calls_in(n.id))]
    if not hits:
        rep.bad(rule, fi.site, what, "the call is absent")
        return False
    # normal exit unreachable when all hit nodes are removed
    seen = set()
    work = [g.entry.id]
    while work:
        n = work.pop()
        if n in seen or n in hits:
            continue
        seen.add(n)
        for m, lab in g.succ[n]:
            work.append(m)
    if g.exit.id in seen:
        rep.bad(rule, fi.site, what, "some path reaches a normal return without making the call")
        return False
    rep.ok(rule, fi.site, what, f"call at line(s) {sorted(g.nodes[h].lineno for h in hits)} is on every normal-exit path")
    return True


# -------------------------------------------------------------------------------------------------

def eventmap_typestate(rep, idx, rule):
    """C13.5: EventMap.add is guarded, idempotent per source, numbers densely in insertion order; setter freezes."""
    cls = idx.find_class("event:EventMap")
    add = idx.find_func("event:EventMap.add")
    frozen_guard(rep, rule, idx, add)
    atomic(rep, rule, idx, add)
    monotone_flag(rep, rule, idx, cls)
    fg = graph(idx, add)
    g = fg.g
    # the store self._sources[K] = (src, INDEX)
    stores = [n for n in g.nodes if n.kind == "stmt" and isinstance(n.ast, ast.Assign) and
              any(isinstance(t, ast.Subscript) and isinstance(t.value, ast.Attribute) and t.value.attr == "_sources"
                  for t in n.ast.targets)]
    if len(stores) != 1:
        rep.bad(rule, add.site, "self._sources[key] = src, index", f"expected one store into the source table, found {len(stores)}")
    else:
        st = stores[0].ast
        from .common import get_fn
        sym = get_fn(idx, add)
        aliases = {k: v for k, v in sym.t.final_env.items() if isinstance(v, tuple) and v[0] != 'localfn'}
        key = sym.norm(ir.from_ast(st.targets[0].slice, aliases))
        val = sym.norm(ir.from_ast(st.value, aliases))
        # (a) guarded by an absence test on the same key
        dom = g.dominators()[stores[0].id]
        guards = []
        for d in dom:
            n = g.nodes[d]
            if n.kind == "test":
                t, pol = ir.split_neg(sym.norm(ir.from_ast(n.ast, aliases)))
                if t[0] == 'cmp' and t[1] == 'in' and t[2] == key and t[3] == ir.parse("self._sources"):
                    # the store must be on the 'absent' side
                    side = "false" if pol else "true"
                    succ_side = [m for m, lab in g.succ[d] if lab == side]
                    if succ_side and stores[0].id in g.reachable(succ_side) and \
                            stores[0].id not in _reach_without(g, {(d, side)}):
                        guards.append(d)
        rep.check(bool(guards), rule, add.site, "store guarded by an absence test on the same key",
                  f"key {ir.show(key)}: re-adding a source must keep its first index (stable numbering)")
        # (b) the index stored is the number of sources already present, read before the store: either the table's size,
        #     or a private counter that starts at 0 and is advanced by one exactly where a source is stored
        size_forms = (ir.parse("self.size"), ir.norm(ir.parse("len(self._sources)")))
        stored_idx = val[1][1] if val[0] == 'tuple' and len(val[1]) == 2 else None
        counter = None
        if stored_idx is not None and stored_idx not in size_forms and stored_idx[0] == 'attr' and stored_idx[1] == ('name', 'self'):
            counter = stored_idx[2]
        if stored_idx in size_forms:
            rep.ok(rule, add.site, "stored index is the number of sources already present", f"stored value is {ir.show(val)}")
        elif counter is not None:
            init = cls.method("__init__")
            inits = [n for n in ast.walk(init.node) if isinstance(n, ast.Assign) and len(n.targets) == 1 and
                     ast.unparse(n.targets[0]) == f"self.{counter}"] if init else []
            init_ok = len(inits) == 1 and isinstance(inits[0].value, ast.Constant) and inits[0].value.value == 0
            writes = []
            for name_, fs_ in cls.methods.items():
                for f_ in fs_:
                    for n in ast.walk(f_.node):
                        if isinstance(n, (ast.Assign, ast.AugAssign)):
                            for t_ in (n.targets if isinstance(n, ast.Assign) else [n.target]):
                                if ast.unparse(t_) == f"self.{counter}" and f_.name != "__init__":
                                    writes.append((f_, n))
            incs = [n for f_, n in writes if f_.name == "add" and isinstance(n, ast.AugAssign) and isinstance(n.op, ast.Add) and
                    isinstance(n.value, ast.Constant) and n.value.value == 1]
            inc_nodes = [x.id for x in g.nodes if x.kind == "stmt" and x.ast in incs]
            dom_all = g.dominators()
            guarded = bool(inc_nodes) and all(stores[0].id in dom_all[i] for i in inc_nodes)
            pdom = g.postdominators([g.exit.id])
            always = bool(inc_nodes) and any(i in pdom.get(stores[0].id, ()) for i in inc_nodes)
            if init_ok and len(writes) == 1 and len(incs) == 1 and guarded and always:
                rep.ok(rule, add.site, "stored index is the number of sources already present",
                       f"private counter self.{counter}: starts at 0, advanced by one exactly when a source is stored")
            elif incs and not guarded:
                rep.bad(rule, add.site, "stored index is the number of sources already present",
                        f"the index comes from self.{counter}, which is also advanced when nothing is added (repeated add of the same source): "
                        "numbering is no longer dense")
            else:
                rep.form(False, rule, add.site, "stored index is the number of sources already present", f"stored value is {ir.show(val)}")
        else:
            rep.form(False, rule, add.site, "stored index is the number of sources already present", f"stored value is {ir.show(val)}",
                     wrong="the index is not read before the store (dense numbering in order of first addition needs the current count)"
                     if stored_idx is not None and stored_idx[0] in ('lin', 'const') else None)
        # (c) key is id(src) of the parameter
        rep.check(key == ir.parse("id(src)"), rule, add.site, "table keyed by the identity of the source",
                  f"key is {ir.show(key)}", nontrivial=False)
        # (d) ... and the object stored under that key is the one the key identifies: otherwise one source reached through two
        #     objects (itself and a view of it) is numbered twice, and the monitor gives one event two bits
        stored_obj = val[1][0] if val[0] == 'tuple' and len(val[1]) == 2 else None
        if key[0] == 'call' and key[1] == ('name', 'id') and len(key[2]) == 1 and stored_obj is not None:
            same = stored_obj == key[2][0]
            rep.form(same, rule, add.site, "the source stored is the object whose identity is the key",
                     f"stores {ir.show(stored_obj)[:70]} under {ir.show(key)}",
                     wrong=None if same else (f"the table is keyed by the identity of `{ir.show(key[2][0])}` but stores another object "
                                              f"({ir.show(stored_obj)[:60]}): the same source handed in through two different objects gets two "
                                              "numbers, so sources and bits no longer correspond one to one"))
    size = cls.method("size")
    if size is not None:
        rets = [s for s in ast.walk(size.node) if isinstance(s, ast.Return)]
        rv = ir.norm(ir.from_ast(rets[0].value, {})) if len(rets) == 1 else None
        same_counter = rv is not None and len(stores) == 1 and rv == ir.norm(ir.from_ast(stores[0].ast.value, {}))[1][1:2][0:1][0] \
            if (len(stores) == 1 and ir.norm(ir.from_ast(stores[0].ast.value, {}))[0] == 'tuple') else False
        rep.form(rv == ir.norm(ir.parse("len(self._sources)")) or same_counter, rule, size.site,
                 "size counts the table the indices are drawn from", f"returns {ir.show(rv) if rv else None}")
    srcs = cls.method("sources")
    if srcs is not None:
        body = [s for s in srcs.node.body if not (isinstance(s, ast.Expr) and isinstance(s.value, ast.Constant))]
        txt = " ".join(ast.unparse(s) for s in body)
        ok = len(body) == 1 and ir.norm(ir.from_ast(body[0].value.value, {})) == ir.parse("self._sources.values()") \
            if body and isinstance(body[0], ast.Expr) and isinstance(body[0].value, ast.YieldFrom) else False
        if not ok:
            # accept `for v in self._sources.values(): yield v`
            ok = len(body) == 1 and isinstance(body[0], ast.For) and \
                ir.norm(ir.from_ast(body[0].iter, {})) == ir.parse("self._sources.values()")
        rep.check(ok, rule, srcs.site, "sources() iterates the insertion-ordered table", f"body is `{txt[:80]}`")
    # setter freezes on every normal path
    setter = idx.find_func("event:Source.event_map", "setter")

    def is_freeze(call, fg_):
        # the map given (the parameter), or the field it has just been stored in
        if not (isinstance(call.func, ast.Attribute) and call.func.attr == "freeze"):
            return False
        r = call.func.value
        if isinstance(r, ast.Name) and r.id in setter.params:
            return True
        if isinstance(r, ast.Attribute) and isinstance(r.value, ast.Name) and r.value.id == "self":
            return any(isinstance(s, ast.Assign) and len(s.targets) == 1 and ast.unparse(s.targets[0]) == ast.unparse(r) and
                       isinstance(s.value, ast.Name) and s.value.id in setter.params for s in ast.walk(setter.node))
        return False
    must_call(rep, rule, idx, setter, is_freeze, "Source.event_map setter freezes the map it is given")
    # ... and whoever publishes an event map on a source goes through that setter (or freezes the map itself): a map stored in the
    # private field directly stays open, add() keeps handing out numbers for which the monitor has no bit
    for f in idx.all_functions():
        if f is setter or (f.cls is not None and f.cls.name == "Source" and f.name in ("__init__",)):
            continue
        for st in ast.walk(f.node):
            if isinstance(st, ast.Assign) and len(st.targets) == 1 and isinstance(st.targets[0], ast.Attribute) and st.targets[0].attr == "_event_map" and \
                    not (isinstance(st.value, ast.Constant) and st.value.value is None):
                recv = st.targets[0].value
                own_field = isinstance(recv, ast.Name) and recv.id == "self" and f.cls is not None and f.cls.name == "Source"
                froze = any(isinstance(c_, ast.Call) and isinstance(c_.func, ast.Attribute) and c_.func.attr == "freeze" and
                            ast.unparse(c_.func.value) in (ast.unparse(st.value), ast.unparse(st.targets[0])) for c_ in ast.walk(f.node))
                if not own_field and not froze:
                    rep.bad(rule, f.site, "an event map is published through Source.event_map's setter, which freezes it",
                            f"`{ast.unparse(st)[:70]}` stores the map in the private field directly: the setter's freeze() is bypassed, the map "
                            "stays open, and add() hands out event numbers after the monitor has sized its enable / pending / clear vectors",
                            line=st.lineno)
