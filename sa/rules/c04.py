"""C04 — CSR multiplexer reads: atomic snapshot, exact strobes, zero when idle (one-step facts F1-F4)."""
from ..core import dl, ir
from .common import get_ctx, require_supported, check_dl
from . import glue

EXPLANATION = ("read half of csr.Multiplexer.elaborate as a template over symbolic chunks and registers: read strobe only "
               "under the Case of the register's first chunk address (F1), delayed per-chunk select with the clear at "
               "lower priority (F3), capture of every chunk on the register's own strobe (F2), bus data gated by the "
               "chunk's select (F4); all shadow calls use the read shadow, which holds readable registers only")


class MuxRoles:
    pass


def mux_roles(rep, rule, c, half):
    """half: 'r' or 'w'.  Roles are found structurally (the shadow whose .chunks() the outer loop iterates)."""
    site = c.fi.site
    stb = "r_stb" if half == 'r' else "w_stb"
    found = []
    for L in c.t.loops.values():
        it = c.norm(L.iter)
        if L.kind == 'gen' and it[0] == 'call' and it[1][0] == 'attr' and it[1][2] == 'chunks' and not it[2]:
            inner = [d for d in c.t.drivers if ('for', L.id) in d.gen and
                     c.norm(d.target)[0] == 'attr' and c.norm(d.target)[2] == stb and
                     c.norm(d.target)[1][0] == 'attr' and c.norm(d.target)[1][2] == 'element']
            if inner:
                found.append((L, it[1][1], inner))
    if len(found) != 1:
        rep.unk(rule, site, f"loop over <shadow>.chunks() driving element.{stb}",
                f"found {len(found)} such loops")
        return None
    r = MuxRoles()
    r.Lc, r.SH, stb_drivers = found[0]
    r.off = ('item', r.Lc.id, (0,))
    r.chunk = ('item', r.Lc.id, (1,))
    # inner loop over the registers sharing the chunk
    inner_loops = {fr[1] for d in stb_drivers for fr in d.gen if fr[0] == 'for'} - {r.Lc.id}
    if len(inner_loops) != 1:
        rep.unk(rule, site, "loop over <chunk>.registers()", f"found {len(inner_loops)} inner loops driving the register strobe; the template is not the recognised one")
        return None
    r.Lr = c.t.loops[next(iter(inner_loops))]
    want_iter = c.norm(('call', ('attr', r.chunk, 'registers'), (), ()))
    if c.norm(r.Lr.iter) != want_iter:
        rep.unk(rule, site, "inner loop iterates the registers of the same chunk",
                f"inner loop iterates {ir.show(c.norm(r.Lr.iter))}; expected {ir.show(want_iter)}")
        return None
    r.rng = ('item', r.Lr.id, ())
    r.REG = c.norm(stb_drivers[0].target)[1][1]
    r.env = {"SH": r.SH, "off": r.off, "chunk": r.chunk, "rng": r.rng, "REG": r.REG}
    r.A = c.parse("SH.encode_offset(off, rng)", r.env)
    r.env["A"] = r.A
    # the Switch on the bus address inside the chunk loop, with Case(A)
    sids = set()
    for d in c.t.drivers:
        if ('for', r.Lr.id) in d.gen:
            for fr in d.dsl:
                if fr[0] == 'case':
                    sids.add((fr[1], tuple(c.norm(p) for p in fr[2])))
    if len(sids) != 1:
        rep.unk(rule, site, "one Case per (chunk, register)", f"found {len(sids)} distinct Case patterns in the register loop")
        return None
    sid, pats = next(iter(sids))
    r.sid = sid
    ok_subj = c.norm(c.t.switches[sid]) == c.parse("self.bus.addr")
    rep.check(ok_subj, rule, site, "the Switch decodes the bus address", f"subject is {ir.show(c.norm(c.t.switches[sid]))}")
    rep.check(pats == (r.A,), rule, site,
              "Case pattern is the chunk's bus address for that register: <same shadow>.encode_offset(chunk offset, register range)",
              f"Case uses {', '.join(ir.show(p) for p in pats)}; expected {ir.show(r.A)} (receiver agreement)")
    rep.check(r.REG == c.parse("self.bus.memory_map.decode_address(rng.start)", r.env), rule, site,
              "the register is looked up in the published map at the range's start",
              f"register is {ir.show(r.REG)}")
    r.case = ('formula', c.eng.frame_formula(('case', sid, pats, 0)))
    return r


def shadow_population(rep, rule, c, SH, access):
    """<shadow>.add(range(start, end)) for every resource of the published map, only under readable()/writable()."""
    site = c.fi.site
    adds = []
    for e, gen, dsl_, ln in c.t.calls:
        e = c.norm(e) if e[0] not in ('store', 'augstore') else e
        if e[0] == 'call' and e[1][0] == 'attr' and e[1][2] == 'add' and c.norm(e[1][1]) == SH:
            adds.append((e, gen, ln))
    if len(adds) != 1:
        rep.bad(rule, site, f"shadow population ({access})", f"found {len(adds)} add() calls on the shadow")
        return
    e, gen, ln = adds[0]
    loops = [fr[1] for fr in gen if fr[0] == 'for']
    conds = [(c.norm(fr[1]), fr[2]) for fr in gen if fr[0] == 'pyif']
    if len(loops) != 1 or c.norm(c.t.loops[loops[0]].iter) != c.parse("self.bus.memory_map.resources()"):
        rep.bad(rule, site, f"shadow population ({access})", "registers must come from self.bus.memory_map.resources()", line=ln)
        return
    L = loops[0]
    reg, lo, hi = ('item', L, (0,)), ('item', L, (2, 0)), ('item', L, (2, 1))
    want_arg = c.norm(ir.parse("range(lo, hi)", {"lo": lo, "hi": hi}))
    got_arg = c.norm(e[2][0]) if len(e[2]) == 1 else None
    # range(*bounds) with bounds the (start, end) pair of the same tuple
    if got_arg is not None and got_arg[0] == 'call' and got_arg[1] == ('name', 'range') and \
            [a_ for a_ in got_arg[2] if a_ != ('const', 0)] == [('star', ('item', L, (2,)))]:
        got_arg = want_arg
    rep.check(got_arg == want_arg, rule, site,
              f"{access} shadow is populated with the register's own address range",
              f"add({', '.join(ir.show(a) for a in e[2])}); expected range(start, end) of the same resources() tuple")
    want_cond = [(c.norm(ir.parse(f"reg.element.access.{access}()", {"reg": reg})), True)]
    rep.check(conds == want_cond, rule, site, f"only {access} registers are added to this shadow",
              f"add() happens under {[ir.show(x) + ('' if p else ' (negated)') for x, p in conds]}; expected reg.element.access.{access}()")
    preps = [c.norm(x[0]) for x in c.t.calls if x[0][0] == 'call' and x[0][1][0] == 'attr' and x[0][1][2] == 'prepare'
             and c.norm(x[0][1][1]) == SH]
    if not preps:
        # prepared inside a private helper that builds the shadows (a factory called by elaborate())?
        import ast as _ast
        cls_ = c.fi.cls
        if any(isinstance(x, _ast.Call) and isinstance(x.func, _ast.Attribute) and x.func.attr == "prepare" for x in _ast.walk(c.fi.node)):
            rep.unk(rule, site, "shadow is prepared before its chunks are used", "prepare() is called, but on another name than the shadow the "
                    "chunks are taken from (a loop over both shadows, an alias): that it is this shadow is not derived")
            return
        for call in _ast.walk(c.fi.node):
            if isinstance(call, _ast.Call) and isinstance(call.func, _ast.Attribute) and isinstance(call.func.value, _ast.Name) and \
                    call.func.value.id == "self" and cls_ is not None:
                h = c.idx.lookup_method(cls_, call.func.attr)
                if h is not None and h.node is not c.fi.node and any(
                        isinstance(x, _ast.Call) and isinstance(x.func, _ast.Attribute) and x.func.attr == "prepare" for x in _ast.walk(h.node)):
                    rep.unk(rule, site, "shadow is prepared before its chunks are used", f"prepare() is called in {h.qual}, not in elaborate(); "
                            "that it is this shadow, and before its chunks are used, is not derived")
                    return
    rep.check(len(preps) >= 1, rule, site, "shadow is prepared before its chunks are used", "no prepare() call", nontrivial=False)


def run(rep, idx, tier):
    rep.explanation = EXPLANATION
    rep.assume("A2", "A3", "A4", "A6")
    rep.require("C04.1", 4)
    rep.require("C04.2", 1)
    rep.require("C04.3", 3)
    rep.require("C04.4", 1)
    rep.require("C04.5", 2)
    rep.require("C04.7", 3)
    rep.require("C04.8", 3)
    rep.require("C04.9", 2)
    rep.require("C04.10", 1)
    from .c19 import identity_comparisons
    identity_comparisons(rep, idx, rule="C04.9", classes=["Multiplexer"])
    glue.reset_discipline(rep, "C04.9", idx, ["csr/bus:Multiplexer", "csr/bus:Multiplexer._Shadow.Chunk"])
    c = get_ctx(idx, "csr:Multiplexer.elaborate")
    rep.analysed(c.fi.site)
    rep.count("drivers", len(c.t.drivers))
    site = c.fi.site
    if not require_supported(rep, "C04.1", c):
        return
    r = mux_roles(rep, "C04.1", c, 'r')
    if r is None:
        return
    env = r.env
    first = c.eng.cond(c.parse("A == rng.start", env))
    # C04.1 read strobe: exactly in cycles where the first chunk address is read
    ds = c.drivers_of(c.parse("REG.element.r_stb", env))
    if {d.domain for d in ds} != {"comb"}:
        rep.bad("C04.1", site, "element.r_stb", "must be combinational")
    else:
        check_dl(rep, "C04.1", c, "element.r_stb == bus.r_stb under Case(first chunk address), else 0", ds, "0",
                 [(('formula', dl.f_and(first, r.case[1])), "self.bus.r_stb")], env)
    # C04.2 delayed select
    ds = c.drivers_of(c.parse("chunk.r_en", env))
    if not ds or {d.domain for d in ds} != {"sync"}:
        rep.bad("C04.2", site, "chunk.r_en", "the chunk select must be a sync register (read data is valid one cycle after the strobe)")
    else:
        check_dl(rep, "C04.2", c, "chunk.r_en' = bus.r_stb under Case(A) of a sharing register, else 0", ds, dl.HOLD,
                 [(r.case, "self.bus.r_stb"), ("1", "0")], env)
    # C04.3 capture
    ds = c.drivers_of(c.parse("chunk.data", env))
    cap = [d for d in ds]
    enable = "chunk.w_en"
    if c.drivers_of(c.parse("chunk.w_en", env)):
        glue.check_fanin(rep, "C04.3", c, "chunk capture enable == OR of the sharing registers' read strobes", "chunk.w_en",
                         "REG.element.r_stb", env, r.Lr, outer=(r.Lc.id,))
    else:
        # no enable wire: the OR of the strobes is used directly as the load condition
        conds = {c.norm(fr[1]) for d in cap for fr in d.dsl if fr[0] == 'if'}
        accs = [x for x in conds if x[0] == 'acc']
        if len(conds) == 1 and len(accs) == 1:
            ea = c.t.accs[accs[0][1]]
            if glue.check_acc(rep, "C04.3", c, "chunk capture enable == OR of the sharing registers' read strobes", ea,
                              "REG.element.r_stb", env, r.Lr, outer=(r.Lc.id,)):
                rep.ok("C04.3", site, "chunk capture enable == OR of the sharing registers' read strobes", "used directly as the load condition")
            enable = accs[0]
        else:
            rep.bad("C04.3", site, "chunk capture enable", "chunk.w_en is never driven and the shadow data is not loaded under a plain OR of "
                    "the sharing registers' read strobes")
    if not cap or {d.domain for d in cap} != {"sync"}:
        rep.bad("C04.3", site, "chunk.data", "shadow data must be a sync register")
    else:
        vals = {c.norm(d.value) for d in cap}
        a = glue.acc_of(c, cap[0].value) if len(vals) == 1 else None
        if a is None:
            # another shape (a direct slice for a chunk with one register, a Mux chain, a phi over the number of sharing
            # registers ...): nothing the rule can name as wrong
            rep.unk("C04.3", site, "chunk.data capture value", f"value is not an OR-accumulator over the sharing registers ({sorted(ir.show(v_)[:70] for v_ in vals)[:2]}); "
                    "its agreement with the OR of the strobed slices is not derived")
        else:
            check_dl(rep, "C04.3", c, "chunk.data' = captured slice when the capture enable is high, else hold", cap, dl.HOLD,
                     [(enable, ('acc', a.id))], env)
            want_term = c.parse("Mux(REG.element.r_stb, REG.element.r_data.word_select(A - rng.start, self.bus.data_width), 0)", env)
            ok = len(a.terms) == 1 and c.norm(a.terms[0][0]) == want_term and glue.is_zero(c, a.init) and \
                [fr for fr in a.terms[0][1] if fr[0] == 'pyif'] == [] and ('for', r.Lr.id) in a.terms[0][1]
            rep.check(ok, "C04.3", site,
                      "captured value == OR of Mux(reg.r_stb, reg.r_data.word_select(A - range.start, data_width), 0)",
                      f"terms: {[c.show(t[0]) for t in a.terms]}")
    # C04.4 bus data
    glue.check_fanin(rep, "C04.4", c, "bus.r_data == OR over chunks of Mux(chunk.r_en, chunk.data, 0)", "self.bus.r_data",
                     "Mux(chunk.r_en, chunk.data, 0)", env, r.Lc)
    # C04.5 population
    shadow_population(rep, "C04.5", c, r.SH, "readable")
    # C04.7 the address hash that shares chunks between registers is its own inverse on the low bits
    glue.shadow_hash(rep, idx, "C04.7")
    # C04.10 the shadow is not given up on while a doubling can still separate the registers (a legal layout is not refused)
    glue.shadow_give_up_bound(rep, idx, "C04.10")
    glue.shadow_chunk_keys(rep, idx, "C04.11")
    # C04.8 a chunk is one bus word wide
    glue.chunk_width(rep, "C04.8", idx, c, r.SH)
