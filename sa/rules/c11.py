"""C11 — register fields are packed LSB-first, contiguously, and strobed by access mode."""
import ast

from ..core import dl, ir
from .common import get_ctx, get_ctor, get_fn, require_supported, check_dl
from .c07 import guards_with_context
from . import apirules

EXPLANATION = ("Register.elaborate template with the field index symbolic: the running bit offset is a loop-carried fold "
               "(starts at 0, advances unconditionally by the field width, once per field), one slice [offset, offset+width) "
               "indexes both r_data and w_data, data/strobes wired under readable()/writable(); sibling agreement with "
               "__init__ (same iteration, same width expression), access rejection dominates construction, flatten order")

W_TEXT = "Shape.cast(field.port.shape).width"


def run(rep, idx, tier):
    rep.explanation = EXPLANATION
    rep.assume("A2", "A3", "A4")
    rep.require("C11.1", 3)
    rep.require("C11.2", 1)
    rep.require("C11.3", 4)
    rep.require("C11.4", 3)
    rep.require("C11.5", 3)
    rep.require("C11.6", 5)
    rep.require("C11.7", 1)
    rep.require("C11.9", 1)
    rep.require("C11.10", 1)
    from . import glue as _g9
    _g9.reset_discipline(rep, "C11.9", idx, ["csr/reg:Register", "csr/reg:Bridge"])
    from .c19 import shared_state
    shared_state(rep, idx, rule="C11.7", classes=["Register", "Field", "FieldActionMap", "FieldActionArray", "FieldAction"])
    # an empty collection of fields is refused: every nesting level holds at least one field, so widths and offsets are those of fields
    from .common import check_refusal, get_fn as _get_fn
    for spec, text in (("FieldActionMap.__init__", "not isinstance(fields, dict) or len(fields) == 0"),
                       ("FieldActionArray.__init__", "not isinstance(fields, list) or len(fields) == 0")):
        try:
            check_refusal(rep, "C11.5", _get_fn(idx, spec), f"{spec.split('.')[0]}: the collection is a non-empty {'dict' if 'Map' in spec else 'list'} (else TypeError)",
                          text, "TypeError")
        except Exception as e:
            rep.unk("C11.5", "-", f"{spec}: non-empty collection", f"cannot decide: {type(e).__name__}: {e}")
    annotation_filter(rep, idx, "C11.10")
    c = get_ctx(idx, "Register.elaborate")
    rep.analysed(c.fi.site)
    rep.count("drivers", len(c.t.drivers))
    site = c.fi.site
    if not require_supported(rep, "C11.1", c):
        return
    loops = [L for L in c.t.loops.values() if L.kind == 'seq' and c.norm(L.seq) == ('name', 'self')]
    if len(loops) != 1:
        rep.unk("C11.4", site, "loop over the register's fields (`for path, field in self`)", f"found {len(loops)} such loops")
        return
    L = loops[0]
    field = c.norm(('sub', ('sub', ('name', 'self'), ('idx', L.id)), ('const', 1)))
    env = {"field": field}
    W = c.parse(W_TEXT, env)
    # ---- C11.1 running offset ----------------------------------------------------------------------
    folds = [f for f in c.t.folds.values() if f.loop == L.id]
    # the offset fold is the one used as slice start of element.r_data / w_data
    slices = set()
    for d in c.t.drivers:
        for e in (c.norm(d.target), c.norm(d.value)):
            for x in ir.walk(e):
                if x[0] == 'sub' and x[2][0] == 'slice' and x[1] in (c.parse("self.element.r_data"), c.parse("self.element.w_data")):
                    slices.add((x[1], x[2]))
    sl = {s for _, s in slices}
    whole_r = c.drivers_of(c.parse("self.element.r_data"))
    cat_parts = [d_ for d_ in whole_r if (lambda v: v[0] == 'call' and v[1] == ('name', 'Cat') and len(v[2]) == 1 and v[2][0][0] == 'listacc')(c.norm(d_.value))]
    cat_mode = None
    if whole_r and len(cat_parts) == len(whole_r) and not any(b == c.parse("self.element.r_data") for b, _ in slices):
        cat_mode = concatenated_read_data(rep, idx, c, L, field, W, whole_r)
        if cat_mode is None:
            return
        slices.add((c.parse("self.element.r_data"), next(iter(sl))) if len(sl) == 1 else (c.parse("self.element.r_data"), ('slice', ('const', 0), ('const', 0), ('const', 1))))
    if not sl and (c.t.lists or any(ir.show(c.norm(d_.target)).startswith("Cat(") for d_ in c.t.drivers)):
        rep.unk("C11.2", site, "one slice for read and write data", "no driver reads or writes a slice of element.r_data / element.w_data directly: "
                "the parts are collected in lists and connected through Cat(...); the rule does not follow that form")
        return
    if len(sl) != 1:
        rep.bad("C11.2", site, "one slice for read and write data", f"element.r_data / element.w_data are indexed with {len(sl)} different slices: "
                + ", ".join(ir.show(s) for s in sl))
        return
    S = next(iter(sl))
    rep.check({b for b, _ in slices} == {c.parse("self.element.r_data"), c.parse("self.element.w_data")}, "C11.2", site,
              "the same slice indexes element.r_data and element.w_data", f"slice {ir.show(S)} used on {sorted(ir.show(b) for b, _ in slices)}")
    lo, hi = S[1], S[2]
    if lo[0] != 'carry' or lo[1] not in c.t.folds:
        rep.bad("C11.1", site, "slice start is the running bit offset", f"slice start is {ir.show(lo)}; it must be the offset carried "
                "from the previous field (fields are contiguous)")
        return
    F = c.t.folds[lo[1]]
    rep.check(F.loop == L.id and c.norm(F.init) == ('const', 0), "C11.1", site, "bit offset starts at 0 before the first field",
              f"initial value {c.show(F.init)}")
    want_hi = c.norm(('bin', '+', lo, W))
    rep.check(hi == want_hi, "C11.1", site, "slice is [offset, offset + field width)",
              f"slice stop is {ir.show(hi)}; expected {ir.show(want_hi)}")
    upd = c.norm(F.update)
    rep.check(upd == want_hi, "C11.1", site, "offset advances by the field width once per field, unconditionally",
              f"per-iteration update is {ir.show(upd)}; expected {ir.show(want_hi)} for every field (reserved and write-only fields "
              "occupy bits too)")
    # ---- C11.3 wiring -------------------------------------------------------------------------------------
    # a port's data signals have the field's shape: with a field width of 0 they (and the field's slice of the element) have no bits
    if not hasattr(c.eng, "size_hints"):
        c.eng.size_hints = []
    c.eng.size_hints.append((c.norm(W), [c.parse("field.port.r_data", env), c.parse("field.port.w_data", env)], []))
    rd = c.parse("field.port.access.readable()", env)
    wr = c.parse("field.port.access.writable()", env)
    r_slice = ('sub', c.parse("self.element.r_data"), S)
    w_slice = ('sub', c.parse("self.element.w_data"), S)
    for tgt, cond, val, what in (
            ((r_slice, rd, c.parse("field.port.r_data", env), "element.r_data[slice] == field.port.r_data for readable fields"),) if cat_mode is None else ()) + (
            (c.parse("field.port.r_stb", env), rd, c.parse("self.element.r_stb"), "field.port.r_stb == element.r_stb for readable fields"),
            (c.parse("field.port.w_data", env), wr, w_slice, "field.port.w_data == element.w_data[slice] for writable fields"),
            (c.parse("field.port.w_stb", env), wr, c.parse("self.element.w_stb"), "field.port.w_stb == element.w_stb for writable fields")):
        ds = c.drivers_of(tgt)
        if not ds:
            rep.bad("C11.3", site, what, f"{c.show(tgt)} is never driven")
            continue
        if {d.domain for d in ds} != {"comb"}:
            rep.bad("C11.3", site, what, "must be combinational")
            continue
        check_dl(rep, "C11.3", c, what, ds, "0", [(cond, val)], env)
    # nothing else drives element.r_data
    for (dom, key), ds in c.groups.items():
        t = c.tir[(dom, key)]
        if ir.mentions(t, c.parse("self.element.r_data")) and t != r_slice and not (cat_mode and t == c.parse("self.element.r_data")):
            rep.bad("C11.3", site, key, "element.r_data is driven outside a readable field's own bit range (must read zero elsewhere)",
                    lines=[d.lineno for d in ds])
    # every field is a submodule
    subs = [c.norm(v) for _, v, _, _ in c.t.submodules]
    rep.check(field in subs, "C11.3", site, "every field action is registered as a submodule", f"submodules: {[ir.show(s) for s in subs][:4]}",
              nontrivial=False)
    constructor(rep, idx)
    flatten_order(rep, idx)
    container_coherence(rep, idx)


def concatenated_read_data(rep, idx, c, L, field, W, whole):
    """element.r_data assigned once, as Cat(parts), with `parts` a list that receives exactly one element per field, in field
    order: the field's own read data when it is readable, otherwise a constant zero.  The k-th part then sits at the sum of
    the widths of the parts before it; that is the field's running offset exactly when every part is as wide as its field
    (read data: FieldPort.Signature declares r_data with the port's shape; the zero: its explicit width).
    Returns True when decided and correct, None when reported (violation or undecided)."""
    site = c.fi.site
    what = "element.r_data == concatenation of per-field parts, each as wide as its field"
    if len(whole) != 1 or whole[0].domain != "comb" or whole[0].dsl:
        rep.unk("C11.3", site, what, "element.r_data has several whole-vector drivers or a guarded one")
        return None
    d_ = whole[0]
    def some_readable_flag(e):
        """a Python flag that starts False and is set True in iterations where `<field>.port.access.readable()` holds"""
        if e[0] == 'final' and e[1] in c.t.folds:
            F_ = c.t.folds[e[1]]
            upd = c.norm(F_.update) if F_.update is not None else None
            return c.norm(F_.init) == ('const', False) and upd is not None and upd[0] == 'phi' and \
                all(x[1][0] == 'attr' and x[1][2] == 'readable' for x in ir.walk(upd[1]) if x[0] == 'call') and \
                {upd[2], upd[3]} == {('const', True), ('carry', e[1])}
        return False
    for fr in d_.gen:
        if fr[0] == 'pyif' and some_readable_flag(c.norm(fr[1])):
            continue
        if fr[0] == 'for' or (fr[0] == 'pyif' and not all(x[1][0] == 'attr' and x[1][2] == 'readable' for x in ir.walk(c.norm(fr[1]))
                                                    if x[0] == 'call')):
            rep.unk("C11.3", site, what, f"the assignment is guarded by {ir.show(c.norm(fr[1]))[:80] if fr[0] == 'pyif' else 'a loop'}")
            return None
        if fr[0] == 'pyif' and not any(x[0] == 'call' for x in ir.walk(c.norm(fr[1]))):
            rep.unk("C11.3", site, what, f"the assignment is guarded by {ir.show(c.norm(fr[1]))[:80]}")
            return None
    la = c.t.lists.get(c.norm(d_.value)[2][0][1])
    rd = c.norm(ir.parse("field.port.access.readable()", {"field": field}))
    if la is None or la.home:
        rep.unk("C11.3", site, what, "the list of parts is not created once before the field loop")
        return None
    yes, no, other = [], [], []
    for v, gen, ln in la.items:
        frames = [(fr[0], c.norm(fr[1]) if fr[0] == 'pyif' else fr[1], (fr[2][0] if isinstance(fr[2], tuple) else fr[2]) if fr[0] == 'pyif' else None)
                  for fr in gen]
        # `if not readable: A else: B` is `if readable: B else: A`
        frames = [(k_, cnd[2], not pol) if k_ == 'pyif' and isinstance(cnd, tuple) and cnd[0] == 'un' and cnd[1] == 'not' and isinstance(pol, bool)
                  else (k_, cnd, pol) for k_, cnd, pol in frames]
        if frames == [('for', L.id, None), ('pyif', rd, True)]:
            yes.append((c.norm(v), ln))
        elif frames == [('for', L.id, None), ('pyif', rd, False)]:
            no.append((c.norm(v), ln))
        elif frames == [('for', L.id, None)] and c.norm(v)[0] == 'phi' and c.norm(v)[1] == rd:
            yes.append((c.norm(v)[2], ln))              # one append of `a if readable else b`
            no.append((c.norm(v)[3], ln))
        else:
            other.append((c.norm(v), ln))
    if other or len(yes) != 1 or len(no) != 1:
        # how many parts does a field contribute, as a function of (readable, writable)?  Every field must contribute exactly one.
        wr = c.norm(ir.parse("field.port.access.writable()", {"field": field}))
        counts = {}
        decided = True
        for rv in (False, True):
            for wv in (False, True):
                n_ = 0
                for v, gen, ln in la.items:
                    hold = True
                    for fr in gen:
                        if fr[0] != 'pyif':
                            continue
                        cn = c.norm(fr[1])
                        pol = fr[2][0] if isinstance(fr[2], tuple) else fr[2]
                        pos, p_ = ir.split_neg(cn)
                        if pos == rd:
                            hold = hold and ((rv == p_) == bool(pol))
                        elif pos == wr:
                            hold = hold and ((wv == p_) == bool(pol))
                        else:
                            decided = False
                    if not any(fr[0] == 'for' and fr[1] == L.id for fr in gen):
                        decided = False
                    if hold:
                        vv = c.norm(v)
                        n_ += 1
                        if vv[0] == 'phi' and vv[1] not in (rd, wr):
                            decided = False
                counts[(rv, wv)] = n_
        if decided and any(n_ != 1 for n_ in counts.values()):
            def nm(k):
                return ("readable" if k[0] else "not readable") + " and " + ("writable" if k[1] else "not writable")
            bad_k = sorted(k for k, n_ in counts.items() if n_ != 1)
            rep.bad("C11.3", site, "every field contributes exactly one part to the concatenation of element.r_data",
                    "; ".join(f"a field that is {nm(k)} contributes {counts[k]} part(s)" for k in bad_k) +
                    ": the parts after it sit at another position than the field's running offset (reserved fields are neither "
                    "readable nor writable and still occupy their bits)", line=la.items[0][2] if la.items else None)
            return None
        rep.unk("C11.3", site, what, f"parts are appended in {len(yes)} readable / {len(no)} non-readable / {len(other)} other place(s); the rule "
                "needs exactly one part per field on each side of `field.port.access.readable()`")
        return None
    vy, vn = yes[0][0], no[0][0]
    if vy != c.norm(ir.parse("field.port.r_data", {"field": field})):
        rep.bad("C11.3", site, "element.r_data[slice] == field.port.r_data for readable fields",
                f"the part contributed by a readable field is {ir.show(vy)[:80]}, not its port's r_data", line=yes[0][1])
        return None
    # the port's r_data is as wide as the field: FieldPort.Signature declares it with the shape
    sig = idx.find_func("FieldPort.Signature.__init__")
    declared = any(isinstance(n, ast.Dict) and any(isinstance(k, ast.Constant) and k.value == "r_data" and isinstance(v_, ast.Call) and
                                                     ast.unparse(v_.func) == "In" and len(v_.args) == 1 and ast.unparse(v_.args[0]) in ("self.shape", "shape", "self._shape")
                                                     for k, v_ in zip(n.keys, n.values)) for n in ast.walk(sig.node))
    if not declared:
        rep.unk("C11.3", site, what, "FieldPort.Signature does not declare r_data as In(<shape>) in a dictionary display; its width is not read off")
        return None
    zero_w = None
    if vn[0] == 'call' and vn[1] in (('name', 'Const'), ('name', 'C')) and vn[2] and vn[2][0] == ('const', 0):
        zero_w = c.norm(vn[2][1]) if len(vn[2]) > 1 else ('const', 1)
        if len(vn[2]) == 1 and dict(vn[3]).get('shape') is not None:
            zero_w = c.norm(dict(vn[3])['shape'])
    elif vn == ('const', 0):
        zero_w = ('const', 1)
    if zero_w is None:
        rep.form(False, "C11.3", site, what, f"the part contributed by a non-readable field is {ir.show(vn)[:80]}")
        return None
    # a width may be given as an int or as a shape (unsigned(w) / the port's own shape)
    shape = c.norm(ir.parse("field.port.shape", {"field": field}))
    ok_w = zero_w == W or zero_w == shape or zero_w == c.norm(('call', ('name', 'unsigned'), (W,), ()))
    if not ok_w:
        rep.bad("C11.3", site, "non-readable fields occupy their own width in element.r_data (and read as zero)",
                f"the placeholder of a non-readable field is {ir.show(vn)[:60]}, {ir.show(zero_w)[:60]} bit(s) wide, not the field's width "
                f"{ir.show(W)[:60]}: every field after a write-only or reserved field whose width differs is read back at a shifted position, "
                "while writes still use the correct slice", line=no[0][1])
        return None
    rep.ok("C11.3", site, "element.r_data[slice] == field.port.r_data for readable fields",
           "one part per field in field order: r_data (declared with the port's shape) for readable fields, a zero of the field's width otherwise; "
           "the position of a part in the concatenation is the sum of the earlier widths, i.e. the running offset")
    return True


def constructor(rep, idx):
    ctor = get_ctor(idx, "Register")
    site = ctor.fi.site
    rep.analysed(site)
    def unlist(e):
        while e is not None and e[0] == 'call' and e[1] in (('name', 'list'), ('name', 'tuple')) and len(e[2]) == 1 and not e[3]:
            e = e[2][0]
        return e
    def seq_of(L):
        s = ctor.norm(L.seq) if L.seq is not None else None
        if s is not None and s[0] == 'name' and s[1] not in ctor.fi.params:
            v = ctor.t.final_env.get(s[1])
            stores = [n for n in ast.walk(ctor.fi.node) if isinstance(n, ast.Name) and n.id == s[1] and isinstance(n.ctx, ast.Store)]
            if isinstance(v, tuple) and len(stores) == 1:
                s = ctor.norm(v)
        return unlist(s)
    loops = [L for L in ctor.t.loops.values() if L.kind == 'seq' and seq_of(L) == ('name', 'self')]
    if not loops:
        what4 = "__init__ iterates the same field sequence as elaborate (`for path, field in self`)"
        node = ctor.fi.node
        srcs = [n for fn_ in [node] + [h.node for h in (ctor.fi.cls.methods.get(nm, [None])[0] for nm in ctor.fi.cls.methods) if h is not None and
                                      h.name.startswith("_") and not h.name.startswith("__")] for n in ast.walk(fn_)]
        # (a) the width / the checks run over a *filtered* copy of the field sequence
        filtered = [a_ for a_ in srcs if isinstance(a_, ast.Assign) and len(a_.targets) == 1 and isinstance(a_.targets[0], ast.Name) and
                    isinstance(a_.value, (ast.ListComp, ast.GeneratorExp)) and any(g.ifs for g in a_.value.generators) and
                    isinstance(a_.value.elt, ast.Tuple)]
        for a_ in filtered:
            nm = a_.targets[0].id
            users = [n for n in srcs if isinstance(n, (ast.For, ast.comprehension)) and isinstance(n.iter, ast.Name) and n.iter.id == nm]
            widths = [u for u in users if any(isinstance(x, ast.Attribute) and x.attr == "width" for x in ast.walk(u if isinstance(u, ast.For) else u.iter)) or
                      any(isinstance(p_, (ast.GeneratorExp, ast.ListComp)) and u in p_.generators and
                          any(isinstance(x, ast.Attribute) and x.attr == "width" for x in ast.walk(p_.elt)) for p_ in srcs)]
            if widths:
                cond = ast.unparse(a_.value.generators[0].ifs[0])[:60]
                rep.bad("C11.4", site, "register width == sum over all fields of Shape.cast(field.port.shape).width (the slice width)",
                        f"the width is summed over `{nm}`, a filtered copy of the field sequence (only fields with `{cond}`), while elaborate() gives "
                        "every field its slice: the element is narrower than the fields it must hold", line=a_.lineno)
                return
        # (b) the checks run over self._field.flatten() in some arms of a choice, and another arm (the single un-named field, where
        #     self._field is the field itself) only computes the width
        def has_checks(stmts):
            return any(isinstance(x, ast.Raise) for s_ in stmts for x in ast.walk(s_)) or \
                any(isinstance(x, ast.Call) and isinstance(x.func, ast.Attribute) and x.func.attr.startswith("_check") for s_ in stmts for x in ast.walk(s_))

        # the local(s) that hold the register width: what is handed to Element.Signature(...), and whatever is computed from a `.width`
        width_names = {"width"}
        for x in ast.walk(node):
            if isinstance(x, ast.Call) and ast.unparse(x.func).endswith("Element.Signature") and x.args and isinstance(x.args[0], ast.Name):
                width_names.add(x.args[0].id)
            if isinstance(x, (ast.Assign, ast.AugAssign)) and any(isinstance(y, ast.Attribute) and y.attr == "width" for y in ast.walk(x.value)):
                for t_ in (x.targets if isinstance(x, ast.Assign) else [x.target]):
                    if isinstance(t_, ast.Name):
                        width_names.add(t_.id)

        def sets_width(stmts):
            return any(isinstance(x, ast.Name) and x.id in width_names and isinstance(x.ctx, ast.Store) for s_ in stmts for x in ast.walk(s_))

        def uses_flatten(stmts):
            return any(isinstance(x, ast.Call) and isinstance(x.func, ast.Attribute) and x.func.attr == "flatten" for s_ in stmts for x in ast.walk(s_))
        for n in ast.walk(node):
            if not isinstance(n, ast.If):
                continue
            arms, cur = [], n
            while True:
                arms.append(cur.body)
                if len(cur.orelse) == 1 and isinstance(cur.orelse[0], ast.If):
                    cur = cur.orelse[0]
                else:
                    if cur.orelse:
                        arms.append(cur.orelse)
                    break
            checked = [a_ for a_ in arms if uses_flatten(a_) and has_checks(a_) and sets_width(a_)]
            bare = [a_ for a_ in arms if sets_width(a_) and not has_checks(a_) and not uses_flatten(a_)]
            if checked and bare:
                rep.bad("C11.5", site, "a field whose access mode the register's access mode cannot serve is refused -- for every field collection shape",
                        "the access-mode checks run only where the collection is flattened; the arm for a register made of one un-named field "
                        f"(`{ast.unparse(bare[0][0])[:70]}` ...) only computes the width: such a register accepts a readable field with a write-only "
                        "element (and vice versa)", line=bare[0][0].lineno)
                return
        rep.unk("C11.4", site, what4,
                f"no loop over the register's own field sequence found ({len(ctor.t.loops)} loop(s) in the constructor)")
        return
    # the loop (of possibly several over the same sequence) that adds up the widths
    L, wf, folds = loops[0], [], []
    for L_ in loops:
        field = ctor.norm(('sub', ('sub', L_.seq, ('idx', L_.id)), ('const', 1)))
        W = ctor.parse(W_TEXT, {"field": field})
        folds_ = [f for f in ctor.t.folds.values() if f.loop == L_.id]
        wf_ = [f for f in folds_ if ctor.norm(f.init) == ('const', 0) and ctor.norm(f.update) == ctor.norm(('bin', '+', ('carry', f.id), W))]
        folds += folds_
        if wf_:
            L, wf = L_, wf_
    field = ctor.norm(('sub', ('sub', L.seq, ('idx', L.id)), ('const', 1)))
    W = ctor.parse(W_TEXT, {"field": field})
    rep.check(len(wf) == 1, "C11.4", site, "register width == sum over all fields of Shape.cast(field.port.shape).width (the slice width)",
              f"folds over the field loop: {[(f.name, ctor.show(f.update)) for f in folds]}")
    # the signature gets that sum and the access mode
    sig = None
    for x, gen, ln in ctor.calls_named("__init__"):
        for y in ir.walk(x):
            if y[0] == 'call' and ir.show(y[1]).endswith("Element.Signature"):
                sig = y
    ok = sig is not None and wf and len(sig[2]) >= 1 and sig[2][0] == ('final', wf[0].id)
    rep.check(bool(ok), "C11.4", site, "element signature is built with the summed width", f"Element.Signature call: {ir.show(sig) if sig else None}")
    # __iter__: single field -> ((), field); else flatten()
    it = idx.find_func("Register.__iter__")
    # a thin wrapper `return self._private_generator()` delegates its yields
    for _ in range(2):
        body = [s for s in it.node.body if not (isinstance(s, ast.Expr) and isinstance(s.value, ast.Constant))]
        if len(body) == 1 and isinstance(body[0], ast.Return) and isinstance(body[0].value, ast.Call) and not body[0].value.args and \
                isinstance(body[0].value.func, ast.Attribute) and ast.unparse(body[0].value.func.value) == "self":
            tgt = idx.lookup_method(it.cls, body[0].value.func.attr)
            if tgt is not None and any(isinstance(n, (ast.Yield, ast.YieldFrom)) for n in ast.walk(tgt.node)):
                it = tgt
                continue
        break
    # locals bound once to an attribute of the instance (`field = self.field`) stand for it
    alias = {}
    for st in ast.walk(it.node):
        if isinstance(st, ast.Assign) and len(st.targets) == 1 and isinstance(st.targets[0], ast.Name):
            alias.setdefault(st.targets[0].id, []).append(st.value)
    env_ = {k: ir.from_ast(v[0], {}) for k, v in alias.items()
            if len(v) == 1 and isinstance(v[0], ast.Attribute) and isinstance(v[0].value, ast.Name) and v[0].value.id == "self"}
    ys = [ir.norm(ir.from_ast(n.value, env_)) for n in ast.walk(it.node) if isinstance(n, (ast.Yield, ast.YieldFrom)) and n.value is not None]
    want = {ir.norm(ir.parse("((), self.field)")), ir.norm(ir.parse("self.field.flatten()"))}
    want2 = {ir.norm(ir.parse("((), self._field)")), ir.norm(ir.parse("self._field.flatten()"))}
    rep.check(set(ys) in (want, want2), "C11.4", it.site, "Register.__iter__ yields ((), field) or the flattened collection",
              f"yields: {[ir.show(y) for y in ys]}")
    # ---- C11.5 access rejection ------------------------------------------------------------------------------
    from .common import check_refusal
    for mode in ("readable", "writable"):
        ok, detail = False, ""
        # the guard sits in the loop over the register's own fields
        env = {"field": field}
        if "access" in ctor.t.final_env:
            env["access"] = ctor.t.final_env["access"]          # the effective access mode (after defaulting / conversion)
        from .common import refuses
        ok, detail = refuses(ctor, f"field.port.access.{mode}() and not access.{mode}()", "ValueError", env)
        rep.check(ok, "C11.5", site, f"a {mode} field in a register whose access mode is not {mode} is refused (ValueError)", detail)
    # the raises precede super().__init__ (the component is never half-built)
    fg = apirules.graph(idx, ctor.fi)
    gph = fg.g
    sup = [n.id for n in gph.nodes if n.kind == "stmt" and n.ast is not None and "super().__init__" in fg.text(n.id)]
    raises = [n.id for n in gph.nodes if n.kind == "stmt" and isinstance(n.ast, ast.Raise)]
    late = [r for r in raises if sup and r in gph.reachable(sup)]
    rep.check(bool(sup) and not late, "C11.5", site, "every refusal precedes super().__init__()", f"raise at line(s) {[gph.nodes[r].lineno for r in late]} after construction")


def flatten_order(rep, idx):
    for cname, want_iter in (("FieldActionMap", ["self.items()", "self._fields.items()"]),
                             ("FieldActionArray", ["enumerate(self._fields)", "enumerate(self)"])):
        fi = idx.find_func(f"{cname}.flatten")
        rep.analysed(fi.site)
        c = get_fn(idx, fi)
        # the outer loop: the first generation loop of every yield (helpers reached by `yield from` are walked in place)
        firsts = {next((fr[1] for fr in gen if fr[0] == 'for'), None) for v, frm, gen, ln in c.t.yields if not frm}
        if c.t.unsupported or len(firsts) != 1 or None in firsts or any(frm for v, frm, gen, ln in c.t.yields):
            rep.unk("C11.6", fi.site, "flatten() shape", "the yields are not all inside one loop over the collection's fields"
                    + (f" ({c.t.unsupported[0][1]})" if c.t.unsupported else ""))
            continue
        L = [c.t.loops[next(iter(firsts))]]
        L = L[0]
        it = c.norm(L.iter)
        keys_only = False
        wants = [c.parse(x) for x in want_iter]
        index_forms = [c.parse("range(len(self))"), c.parse("range(len(self._fields))")]
        if it in wants and not L.reversed:
            rep.ok("C11.6", fi.site, "flatten() walks the fields in declaration order", f"iterates {ir.show(it)}")
        elif cname == "FieldActionMap" and not L.reversed and L.kind not in ('range', 'enum') and \
                it in [c.parse(x) for x in ("self", "self._fields", "self.keys()", "self._fields.keys()")]:
            rep.ok("C11.6", fi.site, "flatten() walks the fields in declaration order", f"iterates the names {ir.show(it)} (iteration order: C11.8)")
            keys_only = True
        elif it in index_forms and not L.reversed and cname == "FieldActionArray":
            rep.ok("C11.6", fi.site, "flatten() walks the fields in declaration order", f"iterates indices {ir.show(it)} ascending")
        elif L.reversed or (it[0] == 'call' and it[1] in (('name', 'reversed'), ('name', 'sorted'))) or \
                any(x[0] == 'call' and x[1] in (('name', 'reversed'), ('name', 'sorted')) for x in ir.walk(it)):
            rep.bad("C11.6", fi.site, "flatten() walks the fields in declaration order", f"iterates {ir.show(it)}: fields would be packed in another order "
                    "than they were declared")
        else:
            rep.unk("C11.6", fi.site, "flatten() walks the fields in declaration order", f"unrecognised iteration {ir.show(it)}")
            continue
        # what is yielded: ((key, *sub_path), sub_field) for nested collections, ((key,), field) otherwise
        ys = [c.norm(v) for v, frm, gen, ln in c.t.yields if not frm]
        inner = [x for x in c.t.loops.values() if x.id != L.id]
        if L.kind == 'range':
            key = ('idx', L.id)
            fld_alts = [c.norm(('sub', ('name', 'self'), key)), c.norm(('sub', c.parse("self._fields"), key))]
        elif keys_only:
            key = c.norm(('sub', L.seq, ('idx', L.id))) if L.seq is not None else ('item', L.id, ())
            fld_alts = [c.norm(('sub', ('name', 'self'), key)), c.norm(('sub', c.parse("self._fields"), key))]
        elif L.kind == 'enum':
            key = ('idx', L.id)
            fld_alts = [c.norm(('sub', L.seq, key))]
        else:
            key = ('item', L.id, (0,))
            fld_alts = [('item', L.id, (1,))]
        ok_inner = len(inner) == 1 and any(c.norm(inner[0].iter) == c.norm(('call', ('attr', f_, 'flatten'), (), ())) for f_ in fld_alts)
        rep.check(ok_inner, "C11.6", fi.site, "nested collections are flattened recursively in place",
                  f"inner loops: {[ir.show(c.norm(x.iter)) for x in inner]}")
        if ok_inner:
            sp, sf = ('item', inner[0].id, (0,)), ('item', inner[0].id, (1,))
            want_nested = c.norm(('tuple', (('tuple', (key, ('star', sp))), sf)))
            want_leaf = [c.norm(('tuple', (('tuple', (key,)), f_))) for f_ in fld_alts]
            ok = len(ys) == 2 and want_nested in ys and any(w in ys for w in want_leaf)
            rep.check(ok, "C11.6", fi.site, "paths are prefixed with the key / index of the enclosing collection",
                      f"yields {[ir.show(y) for y in ys]}")
    # FieldActionMap keeps insertion order: _fields is a dict filled in fields.items() order
    m = idx.find_func("FieldActionMap.__init__")
    fors = [n for n in ast.walk(m.node) if isinstance(n, ast.For)]
    ok = any(ir.norm(ir.from_ast(n.iter, {})) == ir.norm(ir.parse("fields.items()")) for n in fors)
    rep.check(ok, "C11.6", m.site, "FieldActionMap instantiates fields in dict order", "no loop over fields.items()", nontrivial=False)
    a = idx.find_func("FieldActionArray.__init__")
    fors = [n for n in ast.walk(a.node) if isinstance(n, ast.For)]
    ok = any(ir.norm(ir.from_ast(n.iter, {})) == ('name', 'fields') for n in fors) and \
        any(isinstance(n, ast.Call) and ast.unparse(n.func) == "self._fields.append" for n in ast.walk(a.node))
    rep.check(ok, "C11.6", a.site, "FieldActionArray instantiates fields in list order (append)", "no `for item in fields: ... append`", nontrivial=False)


def annotation_filter(rep, idx, rule="C11.10"):
    """Fields declared as class annotations are collected by a filter over `self.__annotations__` that keeps what *is* a field
    (a Field, or a dict / list that still holds one after filtering) and drops what is not.  Whether an entry is kept may depend
    on its value only: a test on the entry's *name* silently drops an annotated field, and every field after it moves down."""
    try:
        init = idx.find_func("csr/reg:Register.__init__")
    except Exception:
        rep.unk(rule, "csr/reg.py", "annotation filter", "Register.__init__ not found")
        return
    site = init.site
    what = "annotated fields are kept whatever their name (the filter looks at values only)"
    # the function applied to self.__annotations__: a nested def, or a method / module function
    target = None
    for n in ast.walk(init.node):
        if isinstance(n, ast.Call) and any(ast.unparse(a_) in ("self.__annotations__", "type(self).__annotations__", "cls.__annotations__")
                                           for a_ in list(n.args) + [k.value for k in n.keywords]):
            name = n.func.id if isinstance(n.func, ast.Name) else (n.func.attr if isinstance(n.func, ast.Attribute) else None)
            for d in ast.walk(init.node):
                if isinstance(d, ast.FunctionDef) and d.name == name and d is not init.node:
                    target = d
            if target is None and name is not None:
                h = idx.lookup_method(init.cls, name) or idx.resolve_function(init.module, name)
                target = h.node if h is not None else None
    if target is None:
        uses = any(isinstance(n, ast.Attribute) and n.attr == "__annotations__" for n in ast.walk(init.node))
        if uses:
            rep.unk(rule, site, what, "`__annotations__` is read, but not through a filter function the rule recognises")
        else:
            rep.ok(rule, site, what, "the constructor does not read class annotations", nontrivial=False)
        return
    loops = [n for n in ast.walk(target) if isinstance(n, (ast.For, ast.comprehension))]
    n_loops = 0
    for L in loops:
        tgt = L.target
        if not (isinstance(tgt, ast.Tuple) and len(tgt.elts) == 2 and all(isinstance(x, ast.Name) for x in tgt.elts)):
            continue
        key, val = tgt.elts[0].id, tgt.elts[1].id
        n_loops += 1
        tests = []
        if isinstance(L, ast.For):
            for x in ast.walk(L):
                if isinstance(x, (ast.If, ast.IfExp, ast.While)):
                    tests.append(x.test)
                if isinstance(x, ast.comprehension):
                    tests.extend(x.ifs)
        else:
            tests.extend(L.ifs)
        named = [t for t in tests if any(isinstance(y, ast.Name) and y.id == key for y in ast.walk(t))]
        if named:
            rep.bad(rule, site, what,
                    f"the filter tests the entry's name: `{ast.unparse(named[0])[:70]}` -- an annotated field whose name meets the test is "
                    "dropped without a word, the register is narrower than declared and every later field sits at a lower bit",
                    line=named[0].lineno)
            return
        other = [t for t in tests if not any(isinstance(y, ast.Name) and y.id == val for y in ast.walk(t))
                 and not any(isinstance(y, ast.NamedExpr) for y in ast.walk(t))]
        # a test on a name bound from the value (new_value = f(value); if new_value:) is a test on the value
        derived = {a_.targets[0].id for a_ in ast.walk(target) if isinstance(a_, ast.Assign) and len(a_.targets) == 1 and
                   isinstance(a_.targets[0], ast.Name) and any(isinstance(y, ast.Name) and y.id == val for y in ast.walk(a_.value))}
        other = [t for t in other if not any(isinstance(y, ast.Name) and y.id in derived for y in ast.walk(t))]
        if other:
            rep.unk(rule, site, what, f"the filter has a test the rule does not classify: `{ast.unparse(other[0])[:70]}`")
            return
    if not n_loops:
        rep.unk(rule, site, what, f"no (name, value) loop found in the filter `{target.name}`")
        return
    rep.ok(rule, site, what, f"`{target.name}`: {n_loops} (name, value) loop(s); entries are kept or dropped by their value only")


def container_coherence(rep, idx, rule="C11.8"):
    """The field collections are thin views of one backing store: what __getitem__ / __getattr__ / __iter__ / __len__ hand out
    is what the constructor stored, under the key and in the order it was stored -- flatten() (C11.6) and every user of
    `register.f.<name>[i]` (the GPIO peripheral, C16) rely on that."""
    from .common import get_fn
    for cname in ("FieldActionMap", "FieldActionArray"):
        cls = idx.find_class(cname)
        store = cls_store(cls)
        if store is None:
            rep.unk(rule, cls.site, f"{cname}: backing store", "the constructor does not create exactly one dict / list attribute for the fields")
            continue
        S = ('attr', ('name', 'self'), store)
        # __getitem__(key) -> store[key]
        gi = cls.method("__getitem__")
        if gi is None:
            rep.unk(rule, cls.site, f"{cname}.__getitem__", "not defined")
        else:
            c = get_fn(idx, gi)
            rets = [c.norm(v) for v, g_, l_ in c.t.returns]
            want = ('sub', S, ('name', 'key'))
            wrong = None
            if len(rets) == 1 and rets[0][0] == 'sub' and rets[0][1] == S and rets[0][2] != ('name', 'key'):
                wrong = f"the element handed out is {ir.show(rets[0])}, not the one stored under the key"
            elif len(rets) == 1 and rets[0][0] == 'sub' and rets[0][1] != S and rets[0][2] == ('name', 'key'):
                wrong = f"the element is taken from {ir.show(rets[0][1])}, not from the collection's own store self.{store}"
            rep.form(rets == [want], rule, gi.site, f"{cname}[key] is the field stored under key", f"returns {[ir.show(r)[:60] for r in rets]}", wrong=wrong)
        # __len__ -> len(store)
        ln_ = cls.method("__len__")
        if ln_ is not None:
            c = get_fn(idx, ln_)
            rets = [c.norm(v) for v, g_, l_ in c.t.returns]
            want = c.norm(('call', ('name', 'len'), (S,), ()))
            wrong = None
            if len(rets) == 1 and rets[0] != want and any(x == want for x in ir.walk(rets[0])):
                wrong = f"len() is {ir.show(rets[0])}, not the number of stored fields"
            rep.form(rets == [want], rule, ln_.site, f"len({cname}) is the number of stored fields", f"returns {[ir.show(r)[:60] for r in rets]}", wrong=wrong)
        if cname == "FieldActionMap":
            it = cls.method("__iter__")
            if it is not None:
                c = get_fn(idx, it)
                ys = [(c.norm(v), frm, gen) for v, frm, gen, l_ in c.t.yields]
                rets = [c.norm(v) for v, g_, l_ in c.t.returns]
                ok = (len(ys) == 1 and ys[0][1] and ys[0][0] in (S, c.norm(('call', ('attr', S, 'keys'), (), ())))) or \
                     rets in ([c.norm(('call', ('name', 'iter'), (S,), ()))], [c.norm(('call', ('name', 'iter'), (('call', ('attr', S, 'keys'), (), ()),), ()))]) or \
                     (len(ys) == 1 and not ys[0][1] and len(ys[0][2]) == 1 and ys[0][2][0][0] == 'for' and
                      c.norm(c.t.loops[ys[0][2][0][1]].iter) in (S, c.norm(('call', ('attr', S, 'keys'), (), ()))) and
                      ys[0][0] in (('item', ys[0][2][0][1], ()), ('sub', S, ('idx', ys[0][2][0][1]))))
                wrong = None
                txt = ast.unparse(it.node)
                if "reversed(" in txt or "sorted(" in txt:
                    wrong = "the names are reported in another order than the fields were declared"
                if not ok and len(ys) == 1 and not ys[0][1] and any(fr[0] == 'for' and c.norm(c.t.loops[fr[1]].iter) in
                                                                   (S, c.norm(('call', ('attr', S, 'keys'), (), ()))) for fr in ys[0][2]) and \
                        any(fr[0] == 'pyif' for fr in ys[0][2]):
                    conds = [ir.show(c.norm(fr[1]))[:60] for fr in ys[0][2] if fr[0] == 'pyif']
                    wrong = (f"iteration skips the stored names for which `{' and '.join(conds)}` fails, while len() and [] keep them: "
                             "flatten() and the register layout lose those fields")
                rep.form(ok, rule, it.site, "iter(FieldActionMap) yields the declared names in declaration order",
                         f"yields {[ir.show(y[0])[:50] for y in ys]} returns {[ir.show(r)[:50] for r in rets]}", wrong=wrong)
            ga = cls.method("__getattr__")
            if ga is not None:
                c = get_fn(idx, ga)
                rets = [c.norm(v) for v, g_, l_ in c.t.returns]
                ok = len(rets) == 1 and rets[0] in (c.norm(ir.parse("self[name]")), ('sub', S, ('name', 'name')))
                wrong = None
                if len(rets) == 1 and rets[0][0] == 'sub' and rets[0][2] != ('name', 'name'):
                    wrong = f"attribute access hands out {ir.show(rets[0])}, not the field of that name"
                rep.form(ok, rule, ga.site, "FieldActionMap.<name> is the field stored under that name", f"returns {[ir.show(r)[:60] for r in rets]}", wrong=wrong)
                raises = {e for e, g_, l_ in c.t.raises}
                rep.form(raises <= {"AttributeError"} and bool(raises), rule, ga.site, "a missing or reserved name is an AttributeError (attribute protocol)",
                         f"raises {sorted(raises)}", wrong=None if not raises - {"AttributeError"} else
                         f"raises {sorted(raises - {'AttributeError'})}: hasattr() / getattr(obj, name, default) on a field map then fail instead of answering",
                         nontrivial=False)
    # Register.__iter__: a single field is reported with the empty path, a collection through its flatten()
    ri = idx.find_func("Register.__iter__")
    c = get_fn(idx, ri)
    if not c.t.yields:
        # a thin wrapper `return self._private_generator()` delegates its yields
        rets = [c.norm(v) for v, g_, l_ in c.t.returns]
        if len(rets) == 1 and rets[0][0] == 'call' and rets[0][1][0] == 'attr' and rets[0][1][1] == ('name', 'self') and not rets[0][2]:
            tgt = idx.lookup_method(ri.cls, rets[0][1][2])
            if tgt is not None:
                ri = tgt
                c = get_fn(idx, ri)
    ys = [(c.norm(v), frm) for v, frm, gen, l_ in c.t.yields]
    single = c.norm(ir.parse("((), self.field)"))
    alt_single = c.norm(ir.parse("((), self._field)"))
    flat = [c.norm(ir.parse("self.field.flatten()")), c.norm(ir.parse("self._field.flatten()"))]
    ok = any(not frm and v in (single, alt_single) for v, frm in ys) and (any(frm and v in flat for v, frm in ys) or
                                                                         any(c.norm(L.iter) in flat for L in c.t.loops.values()))
    rep.form(ok, rule, ri.site, "iter(Register) is ((), field) for a single field and the collection's flatten() otherwise",
             f"yields {[ir.show(v)[:50] for v, frm in ys]}")


def cls_store(cls):
    """name of the one attribute that __init__ creates as dict() / {} / list() / []"""
    init = cls.method("__init__")
    if init is None:
        return None
    found = []
    for n in ast.walk(init.node):
        if isinstance(n, ast.Assign) and len(n.targets) == 1 and isinstance(n.targets[0], ast.Attribute) and \
                isinstance(n.targets[0].value, ast.Name) and n.targets[0].value.id == "self":
            v = n.value
            if (isinstance(v, (ast.Dict, ast.List)) and not (v.keys if isinstance(v, ast.Dict) else v.elts)) or \
                    (isinstance(v, ast.Call) and isinstance(v.func, ast.Name) and v.func.id in ("dict", "list") and not v.args and not v.keywords):
                found.append(n.targets[0].attr)
    return found[0] if len(found) == 1 else None
