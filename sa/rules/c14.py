"""C14 — CSR event monitor: enable reads back, pending is read / write-one-to-clear."""
from ..core import dl, ir
from ..core.pol import Pol
from .common import get_ctx, get_ctor, require_supported, check_dl, single_unconditional, kwarg

EXPLANATION = ("csr.EventMonitor: decision lists of the enable latch and the write-one-to-clear path by truth table, role "
               "agreement enable/pending from the constructor's add_resource names, register sizing idioms, and the "
               "polarity of the CSR bus port and of the connect() calls (two-point polarity typing)")


def roles(ctor):
    """enable / pending register attributes from add_resource(<reg>, name=("enable",)) etc."""
    out = {}
    order = []
    for call, gen, ln in ctor.calls_named("add_resource"):
        name = kwarg(call, 'name')
        reg = call[2][0] if call[2] else None
        txt = ir.show(name) if name is not None else ""
        for role in ("enable", "pending"):
            if f"'{role}'" in txt and reg is not None:
                out[role] = (reg, call, ln)
                order.append((ln, role))
    return out, [r for _, r in sorted(order)]


def run(rep, idx, tier):
    rep.explanation = EXPLANATION
    rep.assume("A2", "A4")
    rep.require("C14.1", 4)
    rep.require("C14.2", 5)
    rep.require("C14.3", 4)
    rep.require("C14.4", 3)
    rep.require("C14.5", 1)
    rep.require("C14.6", 1)
    # bit k of the enable / pending registers is event k of the map: one number per source (the event map's own book-keeping)
    rep.require("C14.8", 5)
    from . import apirules as _api
    _api.eventmap_typestate(rep, idx, "C14.8")
    from . import glue as _g6
    _g6.reset_discipline(rep, "C14.6", idx, ["csr/event:EventMonitor"])
    from . import glue as _glue
    _glue.write_once_handles(rep, "C14.5", idx, "csr/event:EventMonitor")
    c = get_ctx(idx, "EventMonitor.elaborate")
    ctor = get_ctor(idx, "EventMonitor")
    rep.analysed(c.fi.site, ctor.fi.site)
    rep.count("drivers", len(c.t.drivers))
    site = c.fi.site
    if not require_supported(rep, "C14.1", c):
        return
    rl, order = roles(ctor)
    if set(rl) != {"enable", "pending"}:
        rep.bad("C14.2", ctor.fi.site, "enable / pending registers", f"add_resource calls name only {sorted(rl)}")
        return
    EN, PEND = c.norm(rl["enable"][0]), c.norm(rl["pending"][0])
    mon = [ir.parse(k) for k, (v, g, ln) in ctor.stores.items() if v[0] == 'call' and ir.show(v[1]).endswith("Monitor")]
    mux = [ir.parse(k) for k, (v, g, ln) in ctor.stores.items() if v[0] == 'call' and ir.show(v[1]).endswith("Multiplexer")]
    if len(mon) != 1 or len(mux) != 1:
        rep.bad("C14.2", ctor.fi.site, "monitor / multiplexer instances", f"found {len(mon)} event.Monitor and {len(mux)} Multiplexer instances")
        return
    MON, MUX = c.norm(mon[0]), c.norm(mux[0])
    env = {"EN": EN, "PEND": PEND, "MON": MON, "MUX": MUX}

    # ---- C14.1 decision lists -------------------------------------------------------------------
    ds = c.drivers_of(c.parse("MON.enable", env))
    if not ds or {d.domain for d in ds} != {"sync"}:
        rep.bad("C14.1", site, "monitor.enable latch", "the enable mask must be a sync register written from the enable CSR",
                lines=[d.lineno for d in ds])
    else:
        check_dl(rep, "C14.1", c, "monitor.enable' = enable.w_stb ? enable.w_data : hold", ds, dl.HOLD,
                 [("EN.element.w_stb", "EN.element.w_data")], env)
    single_unconditional(rep, "C14.1", c, "enable.r_data == monitor.enable", c.parse("EN.element.r_data", env), "comb",
                         c.parse("MON.enable", env))
    ds = c.drivers_of(c.parse("MON.clear", env))
    if not ds or {d.domain for d in ds} != {"comb"}:
        rep.bad("C14.1", site, "monitor.clear", "the clear mask must be combinational from the pending CSR write",
                lines=[d.lineno for d in ds])
    else:
        check_dl(rep, "C14.1", c, "monitor.clear == pending.w_stb ? pending.w_data : 0", ds, "0",
                 [("PEND.element.w_stb", "PEND.element.w_data")], env)
    single_unconditional(rep, "C14.1", c, "pending.r_data == monitor.pending", c.parse("PEND.element.r_data", env), "comb",
                         c.parse("MON.pending", env))

    # ---- C14.2 constructor -----------------------------------------------------------------------
    cs = ctor.fi.site
    size = ctor.parse("event_map.size")
    for role, attr in (("enable", EN), ("pending", PEND)):
        v = ctor.stored(ir.show(attr))
        ok = v is not None and v[0] == 'call' and v[2] and v[2][0] == size
        rep.check(ok, "C14.2", cs, f"{role} register is event_map.size bits wide", f"constructed as {ir.show(v) if v else None}")
    want_size = ctor.parse("(event_map.size + data_width - 1) // data_width")
    for role in ("enable", "pending"):
        call = rl[role][1]
        rep.check(kwarg(call, 'size') == want_size, "C14.2", cs, f"{role} occupies ceil(size / data_width) addresses",
                  f"size argument is {ir.show(kwarg(call, 'size') or ('const', None))}")
    # placement: implicit (the map aligns each register itself), or an explicit address that is a multiple of 2**alignment
    unit = ctor.parse("1 << alignment")
    for role in ("enable", "pending"):
        a_ = kwarg(rl[role][1], 'addr')
        whatp = f"{role} is placed at an address the map accepts for every alignment"
        if a_ is None or a_ in (('const', None), ('const', 0)):
            rep.ok("C14.2", cs, whatp, "implicit placement" if a_ is None or a_ == ('const', None) else "address 0", nontrivial=False)
        elif a_[0] == 'call' and a_[1] == ('name', 'max') and unit in a_[2] and len(a_[2]) == 2:
            other = [x for x in a_[2] if x != unit][0]
            rep.bad("C14.2", cs, whatp, f"addr={ir.show(a_)}: the larger of the register size and the alignment unit is not a multiple of the unit "
                    f"when {ir.show(other)} exceeds it without being a multiple (3 words with alignment=1): add_resource() refuses the address "
                    "and the constructor fails for those event counts")
        elif a_[0] in ('nary', 'bin') and a_[1] in ('*', '<<') and any(x == unit or x == ('name', 'alignment') for x in ir.walk(a_)):
            rep.ok("C14.2", cs, whatp, f"addr={ir.show(a_)}: a multiple of the alignment unit", nontrivial=False)
        else:
            rep.unk("C14.2", cs, whatp, f"addr={ir.show(a_)[:80]}: whether it is always a multiple of 2**alignment is not decided")
    rep.check(order == ["enable", "pending"], "C14.2", cs, "registers are placed in the order enable, pending",
              f"order is {order}")
    # both into the same map, which is the one given to the multiplexer and published
    m1, m2 = rl["enable"][1][1][1], rl["pending"][1][1][1]
    muxv = ctor.stored(ir.show(MUX))
    same = m1 == m2 and muxv is not None and muxv[2] and muxv[2][0] == m1
    rep.check(same, "C14.2", cs, "both registers go into the map handed to the multiplexer",
              f"maps: {ir.show(m1)[:60]} / {ir.show(m2)[:60]}; multiplexer gets {ir.show(muxv[2][0])[:60] if muxv and muxv[2] else None}")
    # the pending register sits right after enable, so for 3, 5, 6, 7 ... words it is not naturally aligned and shares shadow chunks
    # with enable: the multiplexer must be allowed that overlap (default: as many overlaps as registers; an explicit limit >= 1)
    if muxv is not None and muxv[0] == 'call':
        so = kwarg(muxv, 'shadow_overlaps', 1)
        if so is None or so == ('const', None):
            rep.ok("C14.2", cs, "the multiplexer may share shadow chunks between enable and pending", "default shadow_overlaps")
        elif so[0] == 'const' and isinstance(so[1], int) and not isinstance(so[1], bool):
            rep.check(so[1] >= 1, "C14.2", cs, "the multiplexer may share shadow chunks between enable and pending",
                      f"shadow_overlaps={so[1]}: pending follows enable directly, so when the masks span a number of bus words that is not a "
                      "power of two the two registers share a chunk; with no overlap allowed the shadow cannot be balanced and "
                      "elaborate() raises for those event counts")
        else:
            rep.unk("C14.2", cs, "the multiplexer may share shadow chunks between enable and pending", f"shadow_overlaps={ir.show(so)[:60]}")
    if m1[0] == 'call':
        aw = kwarg(m1, 'addr_width')
        want = ctor.parse("1 + max(ceil_log2(S), alignment)", {"S": want_size})
        # named discrepancies: the width ignores the alignment or the register size altogether, or lacks the extra bit for
        # the second register; any other arithmetic (ceil_log2(2 * max(size, 2**alignment)) ...) is undecided
        wrong = None
        if aw is not None and aw != want:
            names = {x[1] for x in ir.walk(aw) if x[0] == 'name'}
            if 'alignment' not in names:
                wrong = "the address width does not depend on the alignment: two aligned registers do not fit when alignment exceeds ceil_log2(size)"
            elif aw == ctor.parse("max(ceil_log2(S), alignment)", {"S": want_size}):
                wrong = "no bit for the second register: enable and pending do not both fit"
        if wrong is None and aw is not None and aw != want:
            # both widths are closed integer formulas of the register size S and the alignment: tabulate them.  A width that comes out
            # *smaller* than the required one somewhere is an address space in which the two registers do not fit (named, with the
            # point); a larger or an equal table proves nothing and stays undecided.
            def ev(e, S_, al):
                k = e[0]
                if e == want_size:
                    return S_
                if k == 'const' and isinstance(e[1], int) and not isinstance(e[1], bool):
                    return e[1]
                if e == ('name', 'alignment'):
                    return al
                if k == 'lin':
                    return e[1] + sum(cf * ev(t_, S_, al) for t_, cf in e[2])
                if k == 'bin' and e[1] in ('+', '-', '*', '//', '**', '<<'):
                    a_, b_ = ev(e[2], S_, al), ev(e[3], S_, al)
                    return {'+': a_ + b_, '-': a_ - b_, '*': a_ * b_, '//': a_ // b_ if b_ else None, '**': a_ ** b_ if 0 <= b_ < 64 else None,
                            '<<': a_ << b_ if 0 <= b_ < 64 else None}[e[1]]
                if k == 'nary' and e[1] == '*':
                    r_ = 1
                    for t_ in e[2]:
                        r_ *= ev(t_, S_, al)
                    return r_
                if k == 'call' and e[1] in (('name', 'max'), ('name', 'min')) and not e[3]:
                    vs = [ev(t_, S_, al) for t_ in e[2]]
                    return max(vs) if e[1][1] == 'max' else min(vs)
                if k == 'call' and e[1] == ('name', 'ceil_log2') and len(e[2]) == 1:
                    n_ = ev(e[2][0], S_, al)
                    return (n_ - 1).bit_length() if n_ >= 1 else 0
                if k == 'call' and e[1][0] == 'attr' and e[1][2] == 'bit_length' and not e[2]:
                    return ev(e[1][1], S_, al).bit_length()
                raise ValueError(ir.show(e))
            try:
                short = None
                for S_ in range(1, 41):
                    for al in range(0, 5):
                        g_, w_ = ev(aw, S_, al), ev(want, S_, al)
                        if g_ is None or w_ is None:
                            raise ValueError("unbounded")
                        if g_ < w_ and short is None:
                            short = (S_, al, g_, w_)
                if short is not None:
                    wrong = (f"with {short[0]} word(s) per mask register and alignment={short[1]} the map is {short[2]} address bit(s) wide where "
                             f"the two aligned registers need {short[3]}: the second register does not fit and the constructor fails for such event counts")
            except Exception:
                pass
        rep.form(aw == want, "C14.2", cs, "address width holds two aligned registers: 1 + max(ceil_log2(reg_size), alignment)",
                 f"addr_width is {ir.show(aw) if aw else None}", wrong=wrong)
        rep.check(kwarg(m1, 'data_width') == ('name', 'data_width') and kwarg(m1, 'alignment') == ('name', 'alignment'),
                  "C14.2", cs, "map uses the constructor's data_width and alignment",
                  f"MemoryMap(...) is {ir.show(m1)[:120]}", nontrivial=False)
    pub = ctor.stored("self.bus.memory_map")
    ok = pub is not None and (pub == m1 or pub == ctor.parse("MUX.bus.memory_map", {"MUX": MUX}))
    rep.check(ok, "C14.2", cs, "published map is the multiplexer's map", f"self.bus.memory_map = {ir.show(pub) if pub else None}")

    # ---- C14.3 attachment -------------------------------------------------------------------------
    attachment(rep, idx, c, MON, MUX)
    # ---- C14.4 the pending register is placed right after enable, i.e. not naturally aligned for 3, 5, 6, 7 ... words:
    # its chunks are reachable only if the multiplexer's shadow hash is its own inverse
    from . import glue
    glue.shadow_hash(rep, idx, "C14.4")


def attachment(rep, idx, c, MON, MUX):
    site = c.fi.site
    cls = c.fi.cls
    P = Pol(idx)
    subs = [c.norm(v) for _, v, _, _ in c.t.submodules]
    rep.check(MON in subs and MUX in subs, "C14.3", site, "monitor and multiplexer are submodules",
              f"submodules registered: {[ir.show(s) for s in subs]}")
    # bus port polarity: a port that publishes a memory map is a target port
    r = P.of(ir.parse("self.bus"), cls)
    if r is None:
        rep.unk("C14.3", cls.site, "polarity of EventMonitor.bus", "cannot type the port")
    else:
        rep.check(r[0] == -1, "C14.3", cls.site, "EventMonitor.bus has target polarity (In of an initiator-oriented signature)",
                  f"port types as {'+' if r[0] > 0 else '-'}{r[1].qual}: an initiator cannot be connect()ed to it "
                  "(both sides would drive addr/strobes)")
    # connect calls: same signature class, opposite polarity
    n = 0
    for args, gen, dsl_, ln in c.t.connects:
        if len(args) != 2:
            continue
        pa, pb = P.of(c.norm(args[0]), cls), P.of(c.norm(args[1]), cls)
        what = f"connect(m, {ir.show(args[0])}, {ir.show(args[1])})"
        n += 1
        if pa is None or pb is None:
            rep.unk("C14.3", site, what, "cannot type an argument")
            continue
        rep.check(pa[1] is pb[1] and pa[0] == -pb[0], "C14.3", site, what,
                  f"arguments type as {'+' if pa[0] > 0 else '-'}{pa[1].qual} and {'+' if pb[0] > 0 else '-'}{pb[1].qual}; "
                  "connect() needs the same signature with opposite polarity")
    if n >= 2:
        rep.ok("C14.3", site, "bus and src are wired with connect()", f"{n} connect() call(s)", nontrivial=False)
    else:
        # wired by hand: are the port members driven / read at all?  A port nobody touches is the named defect; member-by-member
        # wiring is another shape, whose completeness the rule does not derive
        touched = set()
        for d_ in c.t.drivers:
            for e_ in (c.norm(d_.target), c.norm(d_.value)):
                for x in ir.walk(e_):
                    if x[0] == 'attr' and x[1] == ('name', 'self') and x[2] in ("bus", "src"):
                        touched.add(x[2])
        if touched >= {"bus", "src"} or getattr(c.t, "unsupported", None):
            rep.unk("C14.3", site, "bus and src are wired with connect()", f"{n} connect() call(s); the ports are wired member by member, "
                    "which the rule does not check for completeness")
        else:
            rep.bad("C14.3", site, "bus and src are wired with connect()", f"{n} connect() call(s) and no assignment touches "
                    f"{sorted({'bus', 'src'} - touched)}: the port is not wired to the inner component")
