"""C10 — Wishbone-to-CSR bridge: each transfer exactly once, in order, on time."""
import ast

from ..core import dl, ir
from .common import get_ctx, get_ctor, require_supported, check_dl, kwarg
from . import glue

EXPLANATION = ("WishboneCSRBridge.elaborate template with the granule index symbolic: CSR strobes / write data / sequencer "
               "increment only under cyc&stb and the matching sequencer state, lane slices, acknowledge and sequencer "
               "decision lists (ack clear has priority), address formation, constructor geometry and window name")


def run(rep, idx, tier):
    rep.explanation = EXPLANATION
    rep.assume("A2", "A3", "A4", "A6")
    rep.require("C10.1", 2)
    rep.require("C10.2", 3)
    rep.require("C10.3", 3)
    rep.require("C10.4", 1)
    rep.require("C10.5", 5)
    rep.require("C10.6", 1)
    from . import glue as _glue
    _glue.reset_discipline(rep, "C10.6", idx, ["WishboneCSRBridge"])
    c = get_ctx(idx, "WishboneCSRBridge.elaborate")
    ctor = get_ctor(idx, "WishboneCSRBridge")
    rep.analysed(c.fi.site, ctor.fi.site)
    rep.count("drivers", len(c.t.drivers))
    site = c.fi.site
    if not require_supported(rep, "C10.1", c):
        return
    wb, csr = c.parse("self.wb_bus"), c.parse("self.csr_bus")
    env = {"wb": wb, "csr": csr}
    T = "wb.cyc & wb.stb"

    # the sequencer: the local register the transfer Switch decodes
    loops = [L for L in c.t.loops.values() if L.kind in ('enum', 'seq') and c.norm(L.seq) == c.parse("wb.sel", env)]
    loops += [L for L in c.t.loops.values() if L.kind == 'range' and c.norm(L.bounds[0]) == ('const', 0) and
              c.norm(L.bounds[1]) == c.parse("len(wb.sel)", env)]
    if len(loops) != 1:
        rep.unk("C10.1", site, "loop over the select bits", f"expected one loop over wb_bus.sel, found {len(loops)}")
        return
    L = loops[0]
    k = ('idx', L.id)
    env["k"] = k
    # Switch whose Cases are the loop index
    sids = set()
    for d in c.t.drivers:
        for fr in d.dsl:
            if fr[0] == 'case' and tuple(c.norm(p) for p in fr[2]) == (k,):
                sids.add(fr[1])
    if len(sids) != 1:
        rep.unk("C10.1", site, "Switch over the sequencer", f"expected one Switch whose Cases are the granule index, found {len(sids)}")
        return
    sid = sids.pop()
    CYC = c.norm(c.t.switches[sid])
    env["cycle"] = CYC
    if CYC[0] != 'sig':
        rep.unk("C10.3", site, "sequencer register", f"Switch subject {ir.show(CYC)} is not a local register")
        return
    ctor_sig = c.t.sigs[CYC[1]].ctor
    want = c.parse("Signal(range(len(wb.sel) + 1))", env)
    # Signal(range(N)) holds 0 .. N-1 in ceil_log2(N) bits: the same register spelled by its width is the same register; any other
    # shape is compared as it stands (a width that is too small truncates the count, a named discrepancy; others undecided)
    want_w = c.parse("Signal(ceil_log2(len(wb.sel) + 1))", env)
    got = c.norm(ctor_sig)
    narrow = {c.parse("Signal(range(len(wb.sel)))", env), c.parse("Signal(ceil_log2(len(wb.sel)))", env),
              c.parse("Signal(exact_log2(len(wb.sel)))", env)}
    rep.form(got in (want, want_w), "C10.3", site, "sequencer counts 0 .. number of granules",
             f"created as {ir.show(got)}; expected {ir.show(want)}",
             wrong=("the register cannot hold the final state `number of granules`: the count wraps to 0 and the transfer is never acknowledged"
                    if got in narrow else ("not a plain Signal(range(...)) / Signal(<width>)" if got[0] == 'call' and got[1] == ('name', 'Signal') and
                                          (got[3] or len(got[2]) != 1) else None)))
    case_k = ('formula', c.eng.frame_formula(('case', sid, (k,), 0)))
    dflt = ('formula', c.eng.frame_formula(('default', sid)))
    Tf = c.eng.cond(c.parse(T, env))

    def under(fr):
        return ('formula', dl.f_and(Tf, fr[1]))

    # ---- C10.1 strobes and write data only inside the transfer, in the matching state -------------
    for tgt, val, what in (("csr.r_stb", "wb.sel[k] & ~wb.we", "csr.r_stb == sel[k] & ~we in state k of a transfer, else 0"),
                           ("csr.w_stb", "wb.sel[k] & wb.we", "csr.w_stb == sel[k] & we in state k of a transfer, else 0")):
        ds = c.drivers_of(c.parse(tgt, env))
        if not ds or {d.domain for d in ds} != {"comb"}:
            rep.bad("C10.1", site, what, f"{tgt} must be driven combinationally", lines=[d.lineno for d in ds])
            continue
        check_dl(rep, "C10.1", c, what, ds, "0", [(under(case_k), val)], env)
    g = c.parse("wb.granularity", env)
    env["g"] = g
    ds = c.drivers_of(c.parse("csr.w_data", env))
    if not ds and c.overlapping(c.parse("csr.w_data", env)):
        rep.unk("C10.1", site, "csr.w_data", "driven bit by bit / slice by slice; the rule compares the signal as a whole and does not assemble it")
    elif not ds or {d.domain for d in ds} != {"comb"}:
        rep.bad("C10.1", site, "csr.w_data", "must be driven combinationally")
    else:
        # write data only matters while a strobe can be issued: compare under "transfer in state k"
        check_dl(rep, "C10.2", c, "csr.w_data == dat_w[lane k] whenever state k of a transfer is active", ds, "0",
                 [("1", "wb.dat_w[slice(k * g, (k + 1) * g)]")], env, assume=under(case_k))

    # ---- C10.2 read lanes -----------------------------------------------------------------------
    lanes = [(dom, t, dsx) for dom, t, dsx in c.targets_matching(
        lambda t: t[0] == 'sub' and t[1] == c.parse("wb.dat_r", env))]
    t_prev = c.parse("wb.dat_r[slice((k - 1) * g, k * g)]", env)
    t_last = c.norm(c.parse("wb.dat_r[slice(last * g, (last + 1) * g)]", dict(env, last=('last', k))))
    seen_prev = seen_last = False
    foreign = False

    def _switch_id(fr):
        return fr[1]
    for dom, t, dsx in lanes:
        if dom != "sync":
            rep.bad("C10.2", site, f"{ir.show(t)}", "read data lanes must be registered (CSR read data arrives one cycle after its strobe)")
            continue
        if t == t_prev:
            seen_prev = True
            check_dl(rep, "C10.2", c, "lane k-1 registers csr.r_data in state k (k > 0)", dsx, dl.HOLD,
                     [(('formula', dl.f_and(Tf, case_k[1], c.eng.cond(c.parse("k > 0", env)))), "csr.r_data")], env)
        elif t == t_last:
            seen_last = True
            if any(fr[0] in ('case', 'default') and _switch_id(fr) != sid for d_ in dsx for fr in d_.dsl):
                foreign = True
                rep.unk("C10.2", site, "last lane registers csr.r_data in the final state", "the last lane is written under another Switch than the "
                        "sequencer's; whether its Default is the sequencer's final state is not derived")
            else:
                check_dl(rep, "C10.2", c, "last lane registers csr.r_data in the final state", dsx, dl.HOLD,
                         [(under(dflt), "csr.r_data")], env)
        else:
            other_loops = {x[1] for x in ir.walk(t) if x[0] == 'idx'} - {k[1] if k[0] == 'idx' else None}
            foreign = foreign or bool(other_loops) or any(fr[0] == 'case' and _switch_id(fr) != sid for d_ in dsx for fr in d_.dsl)
            if other_loops or any(fr[0] == 'case' and _switch_id(fr) != sid for d_ in dsx for fr in d_.dsl):
                # the lanes are collected by a loop / Switch of their own (lane j under Case(j + 1) ...): the pairing of states and
                # lanes is written in another index, which the template does not re-derive
                rep.unk("C10.2", site, ir.show(t)[:90], "read data lanes are written in a separate loop or Switch; the pairing state k -> lane k-1 "
                        "is not derived for that shape")
            else:
                rep.bad("C10.2", site, ir.show(t), "read data is registered into a lane that is neither lane k-1 in state k nor the last lane "
                        "in the final state", lines=[d.lineno for d in dsx])
    if not seen_prev and not foreign:
        rep.bad("C10.2", site, "lane k-1 <= csr.r_data in state k", "no such driver: granule k's read data would land in the wrong lane or be lost")
    if not seen_last and not foreign:
        rep.bad("C10.2", site, "last lane <= csr.r_data in the final state", "no such driver")
    if c.drivers_of(c.parse("wb.dat_r", env)):
        rep.unk("C10.2", site, "wb.dat_r", "read data is also driven as a whole")

    # ---- C10.3 sequencer and acknowledge -----------------------------------------------------------
    ds = c.drivers_of(CYC)
    if {d.domain for d in ds} != {"sync"}:
        rep.bad("C10.3", site, "sequencer register", "must be a sync register")
    else:
        check_dl(rep, "C10.3", c, "cycle' = ack ? 0 : (transfer & state k) ? k+1 : hold", ds, dl.HOLD,
                 [("wb.ack", "0"), (under(case_k), "k + 1")], env)
    ds = c.drivers_of(c.parse("wb.ack", env))
    if not ds or {d.domain for d in ds} != {"sync"}:
        rep.bad("C10.3", site, "wb.ack register", "must be a sync register")
    else:
        check_dl(rep, "C10.3", c, "ack' = ack ? 0 : (transfer & final state) ? 1 : hold", ds, dl.HOLD,
                 [("wb.ack", "0"), (under(dflt), "1")], env)

    # ---- C10.4 address formation -----------------------------------------------------------------
    glue.bridge_address(rep, "C10.4", c, env, CYC)

    constructor(rep, idx, ctor)


def constructor(rep, idx, ctor):
    site = ctor.fi.site
    init = ctor.fi.node
    # whitelist raise on the CSR data width
    from .common import check_refusal
    check_refusal(rep, "C10.5", ctor, "CSR data width restricted to 8/16/32/64", "csr_bus.data_width not in (8, 16, 32, 64)", "ValueError")
    sig = None
    for x, gen, ln in ctor.calls_named("__init__"):
        for y in ir.walk(x):
            if y[0] == 'call' and ir.show(y[1]).endswith("Signature") and kwarg(y, 'granularity') is not None:
                sig = y
    if sig is None:
        rep.bad("C10.5", site, "wishbone.Signature(...)", "not found in super().__init__")
        return
    DW = kwarg(sig, 'data_width')
    env = {"DW": DW}
    want_aw = ctor.parse("max(0, csr_bus.addr_width - exact_log2(DW // csr_bus.data_width))", env)
    got_aw = kwarg(sig, 'addr_width')
    same_aw = got_aw == want_aw or (got_aw is not None and ir.hoist_phi(got_aw, ctor.nctx if hasattr(ctor, 'nctx') else ir._EMPTY) ==
                                    ir.hoist_phi(want_aw, ctor.nctx if hasattr(ctor, 'nctx') else ir._EMPTY))
    rep.check(same_aw, "C10.5", site,
              "Wishbone addr_width == CSR addr_width - log2(ratio)", f"is {ir.show(got_aw)}; expected {ir.show(want_aw)}")
    rep.check(kwarg(sig, 'granularity') == ctor.parse("csr_bus.data_width"), "C10.5", site,
              "Wishbone granularity == CSR data width", f"is {ir.show(kwarg(sig, 'granularity'))}")
    dw_ok = DW == ctor.parse("phi(data_width is None, csr_bus.data_width, data_width)") or \
        DW == ('phi', ctor.parse("data_width is None"), ctor.parse("csr_bus.data_width"), ('name', 'data_width'))
    rep.check(dw_ok, "C10.5", site, "Wishbone data width is the constructor's (default: CSR width)", f"is {ir.show(DW)}",
              nontrivial=False)
    mm = ctor.stored("self.wb_bus.memory_map")
    ok = mm is not None and mm[0] == 'call' and kwarg(mm, 'addr_width') == ctor.parse("csr_bus.addr_width") and \
        kwarg(mm, 'data_width') == ctor.parse("csr_bus.data_width")
    rep.check(ok, "C10.5", site, "published map has the CSR bus geometry", f"self.wb_bus.memory_map = {ir.show(mm) if mm else None}")
    adds = [x for x, gen, ln in ctor.calls_named("add_window")]
    ok = len(adds) == 1 and adds[0][2] and adds[0][2][0] == ctor.parse("csr_bus.memory_map") and \
        (adds[0][1][1] == ctor.parse("self.wb_bus.memory_map") or (mm is not None and mm[0] == 'call' and adds[0][1][1] == mm))
    rep.check(ok, "C10.5", site, "the CSR bus map is the (only) window of the published map",
              f"add_window calls: {[ir.show(a) for a in adds]}")
    if len(adds) == 1:
        rep.check(kwarg(adds[0], 'name') == ('name', 'name'), "C10.5", site, "window name is the constructor's `name`",
                  f"add_window(..., name={ir.show(kwarg(adds[0], 'name') or ('const', None))}): a dropped name changes every path the map reports")
        rep.check(kwarg(adds[0], 'sparse') is None and kwarg(adds[0], 'addr') is None, "C10.5", site,
                  "window is dense at address 0 (implicit)", "unexpected addr/sparse argument", nontrivial=False)
    rep.check(ctor.stored("self._csr_bus") == ('name', 'csr_bus'), "C10.5", site, "the driven CSR bus is the constructor's csr_bus",
              f"self._csr_bus = {ir.show(ctor.stored('self._csr_bus') or ('const', None))}")
