"""C13 — event monitor never loses an event and reports exactly enabled-and-pending."""
import ast
from ..core import dl, ir
from .common import get_ctx, require_supported, check_dl, single_unconditional
from . import apirules

EXPLANATION = ("Monitor.elaborate template: trigger formula per Source.Trigger member (exhaustive split), pending "
               "next-state list (trigger beats clear), index agreement from one sources() tuple, outgoing line; "
               "EventMap.add / Source.event_map setter typestate on the CFG")


def run(rep, idx, tier):
    rep.explanation = EXPLANATION
    rep.assume("A1", "A2", "A3", "A4")
    rep.require("C13.1", 3)
    rep.require("C13.2", 1)
    rep.require("C13.3", 2)
    rep.require("C13.4", 1)
    rep.require("C13.5", 5)
    rep.require("C13.6", 1)
    from . import glue
    glue.reset_discipline(rep, "C13.6", idx, ["event:Monitor"])
    from .c19 import shared_state
    shared_state(rep, idx, rule="C13.6", classes=["EventMap", "Monitor", "Source"])
    c = get_ctx(idx, "event:Monitor.elaborate")
    rep.analysed(c.fi.site)
    rep.count("drivers", len(c.t.drivers))
    glue.partition_concatenations(rep, "C13.3", idx, "event:Monitor.elaborate", "bit k of pending / enable / clear belongs to the source the event map numbers k")
    if require_supported(rep, "C13.1", c):
        monitor(rep, idx, c)
    apirules.eventmap_typestate(rep, idx, "C13.5")
    # a refused Monitor(...) leaves the caller's event map as it was (not frozen): its later add() calls are still numbered
    rep.require("C13.7", 1)
    apirules.atomic(rep, "C13.7", idx, idx.find_func("event:Monitor.__init__"), roots=('param', 'global'))


def monitor(rep, idx, c):
    site = c.fi.site
    # the loop over event_map.sources()
    loops = [L for L in c.t.loops.values()
             if L.kind == 'gen' and c.norm(L.iter) == c.parse("self.src.event_map.sources()")]
    if len(loops) != 1:
        rep.unk("C13.3", site, "loop over self.src.event_map.sources()", f"found {len(loops)} such loops")
        return
    L = loops[0]
    sub, k = ('item', L.id, (0,)), ('item', L.id, (1,))
    env = {"sub": sub, "k": k}
    # event_map.size == 0: the three vectors are declared event_map.size bits wide (checked here) and sources() yields nothing
    init_fn = c.fi.cls.method("__init__")
    src_ = ast.unparse(init_fn.node) if init_fn is not None else ""
    if all(any(f'"{nm}"' in ln_ or f"'{nm}'" in ln_ for ln_ in src_.splitlines() if ".size" in ln_) for nm in ("enable", "pending", "clear")):
        if not hasattr(c.eng, "size_hints"):
            c.eng.size_hints = []
        c.eng.size_hints.append((c.parse("self.src.event_map.size"), [c.parse("self.enable"), c.parse("self.pending"), c.parse("self.clear")], [L.id]))
    members = idx.enums.get("Trigger")
    if not members or set(members) != {"LEVEL", "RISE", "FALL"}:
        rep.unk("C13.1", site, "Source.Trigger members", f"trigger enum is {members}; the role table knows LEVEL/RISE/FALL")
        return

    # C13.1 -- previous-cycle register for the edge modes
    prev = None
    P = None
    cands = []
    for s in c.t.sigs.values():
        ds = c.drivers_of(('sig', s.id, s.name))
        if ds and all(c.norm(d.value) == c.norm(A(sub, 'i')) for d in ds):
            cands.append(s)
    if len(cands) > 1:
        # one previous-sample register per edge mode, each created in its own `trigger == MODE` branch: at most one of them
        # exists for a given source, so they play one role.  (Branches that are not mutually exclusive are left alone.)
        def mode_of(s):
            ms = set()
            for fr in s.gen:
                if fr[0] == 'pyif' and fr[2]:
                    cn = c.norm(fr[1])
                    if cn[0] == 'cmp' and cn[1] == '==' and c.norm(A(sub, 'trigger')) in (cn[2], cn[3]):
                        other = cn[3] if cn[2] == c.norm(A(sub, 'trigger')) else cn[2]
                        ms.add(ir.show(other))
            return ms
        modes = [mode_of(s) for s in cands]
        same_ctor = len({ir.show(c.norm(s.ctor)) for s in cands}) == 1
        if all(len(m_) == 1 for m_ in modes) and len({next(iter(m_)) for m_ in modes}) == len(cands) and same_ctor:
            keep = ('sig', cands[0].id, cands[0].name)
            ren = {('sig', s.id, s.name): keep for s in cands[1:]}

            def rn(e):
                return ir.subst(e, lambda x: ren.get(x))
            for d_ in c.t.drivers:
                d_.target, d_.value = rn(d_.target), rn(d_.value)
                d_.dsl = tuple((fr[0], rn(fr[1])) + tuple(fr[2:]) if fr[0] in ('if', 'elif') else fr for fr in d_.dsl)
            c.groups, c.tir = {}, {}
            for d_ in c.t.drivers:
                tn = c.norm(d_.target)
                key = (d_.domain, ir.show(tn))
                c.groups.setdefault(key, []).append(d_)
                c.tir[key] = tn
            cands = cands[:1]
    if len(cands) == 1:
        prev = cands[0]
        P = ('sig', prev.id, prev.name)
    elif cands:
        prev = cands[-1]
        P = ('sig', prev.id, prev.name)
    if P is None:
        # a register that lives on the component (created by the constructor) instead of a local one
        for (dom, key), ds in c.groups.items():
            tn = c.tir[(dom, key)]
            root = tn
            while root[0] in ('sub', 'attr'):
                root = root[1]
            if dom == "sync" and root == ('name', 'self') and ds and all(c.norm(d.value) == c.norm(A(sub, 'i')) for d in ds):
                P = tn
    trg_ds = c.drivers_of(A(sub, 'trg'))
    any_mode = "(sub.trigger == Source.Trigger.LEVEL) | (sub.trigger == Source.Trigger.RISE) | (sub.trigger == Source.Trigger.FALL)"
    if P is None:
        rep.bad("C13.1", site, "previous-cycle input register", "no register is loaded from sub.i; edge modes cannot compare with the previous cycle")
    else:
        env["i_r"] = P
        pds = c.drivers_of(P)
        doms = {d.domain for d in pds}
        pname = prev.name if prev is not None else ir.show(P)
        if doms != {"sync"}:
            rep.bad("C13.1", site, "previous-cycle input register", f"{pname} is driven in {sorted(doms)}; it must be a sync register (one cycle delay)",
                    lines=[d.lineno for d in pds])
        else:
            check_dl(rep, "C13.1", c, "i_r' = sub.i in the edge modes", pds, dl.HOLD, [("1", "sub.i")], env,
                     assume="(sub.trigger == Source.Trigger.RISE) | (sub.trigger == Source.Trigger.FALL)")
        if prev is not None:
            init = prev.kw('init') or prev.kw('reset')
            like_ok = prev.ctor[1] == ('attr', ('name', 'Signal'), 'like') or prev.ctor[1] == ('name', 'Signal')
            rep.check(like_ok and (init is None or init == ('const', 0)), "C13.1", site, "i_r starts low",
                      f"{prev.name} is created as {ir.show(prev.ctor)}", nontrivial=False)
            if prev.ctor[1] == ('attr', ('name', 'Signal'), 'like') and init is None:
                like_template_init(rep, idx, c, prev)
        else:
            # created in the constructor: self.<table>[...] = Signal.like(<source>.i, ...) with no non-zero init
            attr = P
            while attr[0] == 'sub':
                attr = attr[1]
            made = []
            init_fn = c.fi.cls.method("__init__") if c.fi.cls is not None else None
            if init_fn is not None and attr[0] == 'attr':
                for n in ast.walk(init_fn.node):
                    if isinstance(n, ast.Assign) and len(n.targets) == 1 and isinstance(n.targets[0], ast.Subscript) and \
                            ast.unparse(n.targets[0].value) == f"self.{attr[2]}" and isinstance(n.value, ast.Call):
                        made.append(n.value)
            ok = bool(made) and all(ast.unparse(m_.func) in ("Signal", "Signal.like") and
                                    not any(k.arg in ("init", "reset") and not (isinstance(k.value, ast.Constant) and k.value.value in (0, False))
                                            for k in m_.keywords) for m_ in made)
            rep.form(ok, "C13.1", site, "i_r starts low", f"{ir.show(P)} is created by the constructor as {[ast.unparse(m_)[:60] for m_ in made]}")
    if not trg_ds:
        rep.bad("C13.1", site, "sub.trg driver", "sub.trg is never driven")
    elif {d.domain for d in trg_ds} != {"comb"}:
        rep.bad("C13.1", site, "sub.trg driver", "sub.trg must be combinational", lines=[d.lineno for d in trg_ds])
    elif P is not None:
        check_dl(rep, "C13.1", c, "sub.trg per trigger mode (LEVEL: i; RISE: ~i_r & i; FALL: i_r & ~i)", trg_ds, "0",
                 [("sub.trigger == Source.Trigger.LEVEL", "sub.i"),
                  ("sub.trigger == Source.Trigger.RISE", "~i_r & sub.i"),
                  ("sub.trigger == Source.Trigger.FALL", "i_r & ~sub.i")], env, assume=any_mode)

    # C13.2 / C13.3 -- pending bits
    pend = [(dom, t, ds) for dom, t, ds in c.targets_matching(
        lambda t: t[0] == 'sub' and t[1] == c.parse("self.pending"))]
    whole = c.drivers_of(c.parse("self.pending"))
    if whole and any(('for', L.id) in d_.gen for d_ in whole):
        rep.bad("C13.2", site, "pending update",
                "the whole pending vector is assigned inside the per-source loop: of several assignments to one signal the last one wins, so "
                "when two sources trigger in the same cycle only the later source's bit is recorded and the other event is lost",
                lines=[d_.lineno for d_ in whole])
    elif whole:
        # vector-wide update outside the loop: compare bit k (this source's bit) of the assignment with the per-source table
        pseudo = c.bit_view(c.parse("self.pending"), k) if {d_.domain for d_ in whole} == {"sync"} else None
        if pseudo is None:
            rep.unk("C13.2", site, "pending update", "pending is driven as a whole and the assigned value cannot be projected onto one bit")
        else:
            c.w.extra.add(ir.show(c.norm(('sub', c.parse("self.pending"), k))))
            check_dl(rep, "C13.2", c, "pending[k]' = sub.trg ? 1 : clear[k] ? 0 : hold (bit view of the vector-wide update)", pseudo, dl.HOLD,
                     [("sub.trg", "1"), ("self.clear[k]", "0")], env)
            rep.ok("C13.3", site, "pending bit index comes from the same sources() tuple as the source",
                   "the bit view at index k resolved the trigger vector to this source's own trigger: its bit is written at index k")
    elif not pend:
        rep.bad("C13.2", site, "pending update", "no pending bit is ever driven")
    for dom, t, ds in pend:
        rep.check(t[2] == k, "C13.3", site, f"pending bit index comes from the same sources() tuple as the source",
                  f"index is {ir.show(t[2])}, expected {ir.show(k)}", lines=[d.lineno for d in ds])
        if dom != "sync":
            rep.bad("C13.2", site, "pending update", f"pending driven in domain {dom}", lines=[d.lineno for d in ds])
            continue
        if t[2] != k:
            continue
        check_dl(rep, "C13.2", c, "pending[k]' = sub.trg ? 1 : clear[k] ? 0 : hold", ds, dl.HOLD,
                 [("sub.trg", "1"), ("self.clear[k]", "0")], env)
    # C13.3 for clear: every use of self.clear[...] in a guard uses k -- covered by the table above (clear[k]);
    # additionally the numbering k is position 1 of the tuple whose position 0 is the source:
    rep.ok("C13.3", site, "source and index are positions 0 and 1 of one sources() tuple",
           f"loop at line {L.lineno} over {ir.show(L.iter)}")

    # C13.4 -- outgoing line
    if or_over_sources(rep, c, L, k):
        return
    single_unconditional(rep, "C13.4", c, "src.i == (enable & pending).any()", c.parse("self.src.i"), "comb",
                         "(self.enable & self.pending).any()")


def like_template_init(rep, idx, c, prev):
    """Signal.like(<source>.<member>) copies the member's initial value: the member of Source.Signature it is modelled on must
    be declared without a non-zero init, in every trigger mode, or the previous-sample register does not start low."""
    site = c.fi.site
    tmpl = c.norm(prev.ctor[2][0]) if prev.ctor[2] else None
    if tmpl is None or tmpl[0] != 'attr':
        rep.unk("C13.1", site, "i_r starts low (the signal it is modelled on has no initial value)", f"Signal.like template {ir.show(tmpl) if tmpl else None}")
        return
    member = tmpl[2]
    sig = idx.find_class("event:Source.Signature")
    init_fn = sig.method("__init__") if sig is not None else None
    decls = []
    if init_fn is not None:
        for n in ast.walk(init_fn.node):
            if isinstance(n, ast.Dict):
                for k, v in zip(n.keys, n.values):
                    if isinstance(k, ast.Constant) and k.value == member and isinstance(v, ast.Call):
                        decls.append(v)
            if isinstance(n, ast.Assign) and len(n.targets) == 1 and isinstance(n.targets[0], ast.Subscript) and \
                    isinstance(n.targets[0].slice, ast.Constant) and n.targets[0].slice.value == member and isinstance(n.value, ast.Call):
                decls.append(n.value)
    if not decls:
        # members produced from a table: no call anywhere in the signature class passes an initial value
        kws = [k for n in ast.walk(sig.node) if isinstance(n, ast.Call) for k in n.keywords if k.arg in ("init", "reset") or k.arg is None]
        if member in idx.members(sig) and not kws:
            rep.ok("C13.1", sig.site, "i_r starts low (the signal it is modelled on has no initial value)",
                   f"member `{member}` comes from a table; no call in Source.Signature passes init= / reset=")
            return
        rep.unk("C13.1", site, "i_r starts low (the signal it is modelled on has no initial value)",
                f"declaration of member `{member}` of Source.Signature not found")
        return
    for v in decls:
        bad = [k for k in v.keywords if k.arg in ("init", "reset") and not (isinstance(k.value, ast.Constant) and k.value.value in (0, False))]
        rep.check(not bad, "C13.1", init_fn.site, "i_r starts low (the signal it is modelled on has no initial value)",
                  f"member `{member}` is declared as {ast.unparse(v)[:90]}: Signal.like({ir.show(tmpl)}) in Monitor.elaborate copies that initial value "
                  "into the previous-sample register, so an edge source starts as if its line had been high before reset")


def or_over_sources(rep, c, L, k):
    """src.i written as the OR, over every source of the event map, of enable[k] & pending[k] (an accumulator filled in
    the sources() loop).  sources() numbers the sources 0 .. size-1 without gaps (C14) and enable / pending are declared
    event_map.size bits wide, so that OR ranges over every bit: it is (enable & pending).any()."""
    ds = c.drivers_of(c.parse("self.src.i"))
    if len(ds) != 1 or ds[0].domain != "comb" or any(fr[0] != 'pyif' for fr in ds[0].dsl) or ds[0].gen:
        return False
    v = c.norm(ds[0].value)
    if v[0] != 'acc' or v[1] not in c.t.accs:
        return False
    acc = c.t.accs[v[1]]
    site = c.fi.site
    what = "src.i == (enable & pending).any()"
    init = c.norm(acc.init)
    zero = init == ('const', 0) or (init[0] == 'call' and init[1] == ('name', 'Const') and init[2] and init[2][0] == ('const', 0))
    if acc.op != '|' or not zero or acc.home:
        rep.unk("C13.4", site, what, f"src.i is an accumulator ({acc.op}, initial value {ir.show(init)}) outside the recognised OR-over-sources shape")
        return True
    want = {c.norm(ir.parse("self.enable[k] & self.pending[k]", {"k": k}))}
    terms = [(c.norm(t), gen, dsl_) for t, gen, dsl_, ln in acc.terms]
    in_loop = all([fr for fr in gen if fr[0] in ('for', 'pyif')] == [('for', L.id)] and not dsl_ for t, gen, dsl_ in terms)
    if len(terms) == 1 and terms[0][0] in want and in_loop:
        # widths: both vectors are declared with event_map.size bits
        init_fn = c.fi.cls.method("__init__")
        src_ = ast.unparse(init_fn.node) if init_fn is not None else ""
        sized = all(any(f'"{nm}"' in ln_ or f"'{nm}'" in ln_ for ln_ in src_.splitlines() if ".size" in ln_) for nm in ("enable", "pending"))
        rep.form(sized, "C13.4", site, what, "OR over every source of enable[k] & pending[k]; the index range of sources() is 0 .. size-1 "
                 "(C14) and both vectors are event_map.size bits wide")
        return True
    named = None
    if len(terms) == 1 and in_loop:
        t = terms[0][0]
        if t == c.norm(ir.parse("self.pending[k]", {"k": k})):
            named = "the enable mask is not applied: a masked pending event raises the line"
        elif t == c.norm(ir.parse("self.enable[k]", {"k": k})):
            named = "pending is not consulted: the line follows the enable mask alone"
        elif t in {c.norm(ir.parse("self.enable[k] | self.pending[k]", {"k": k}))}:
            named = "enable and pending are OR-ed instead of AND-ed"
    rep.form(False, "C13.4", site, what, f"accumulated terms: {[ir.show(t)[:60] for t, g_, d_ in terms]}", wrong=named)
    return True


def A(base, *names):
    return ir.A(base, *names)
