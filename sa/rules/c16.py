"""C16 — GPIO: mode table, exact input delay, set/clear decode, pin independence."""
import ast

from ..core import dl, ir
from .common import get_ctx, get_ctor, require_supported, check_dl, single_unconditional

EXPLANATION = ("gpio.Peripheral.elaborate template: synchroniser chain recognised as a loop-carried fold in the sync "
               "domain (delay = iteration count), per-PinMode value table of o / oe / alt_mode with comb defaults filled "
               "in, set/clr decode and Output field priority list by truth table, every per-pin subscript is the loop "
               "index, register order and field shapes from the constructors")

MODE_TABLE = {           # PinMode member -> (o, oe, alt)   (documented table; `out` = the pin's Output bit)
    "INPUT_ONLY": ("out", "0", "0"),
    "PUSH_PULL": ("out", "1", "0"),
    "OPEN_DRAIN": ("0", "~out", "0"),
    "ALTERNATE": ("out", "0", "1"),
}


def register_roles(ctor):
    """attr -> register name, from `self._x = <builder>.add("Name", ...)` stores, in program order."""
    roles = []
    for pos, (key, (val, gen, ln)) in enumerate(ctor.stores.items()):
        if val[0] == 'call' and val[1][0] == 'attr' and val[1][2] == 'add' and val[2] and val[2][0][0] == 'const':
            roles.append((ln, pos, val[2][0][1], ir.parse(key), val))
    roles.sort(key=lambda r: (r[0], r[1]))              # program order: by line, and within one line in the order the stores were met
    return [(ln, name, key, val) for ln, pos, name, key, val in roles]


def output_action_class(idx):
    """The field action class of the Output register, by role: the class handed to csr.Field(...) in Peripheral.Output.__init__
    (a nested class reached as self._X, or a module-level class)."""
    try:
        out = idx.find_class("gpio:Peripheral.Output")
    except Exception:
        return None
    init = out.method("__init__")
    if init is None:
        return None
    for n in ast.walk(init.node):
        if isinstance(n, ast.Call) and ast.unparse(n.func).endswith("Field") and n.args:
            a = n.args[0]
            fir = ir.from_ast(a, {})
            if isinstance(a, ast.Attribute) and isinstance(a.value, ast.Name) and a.value.id == "self":
                fir = ('attr', ('name', out.name), a.attr)
            cls = idx.resolve_class(fir, out.module, out)
            if cls is None and isinstance(a, ast.Attribute):
                for k in idx.all_classes():
                    if k.name == a.attr and k.qual.startswith(out.qual + "."):
                        cls = k
            if cls is not None:
                return cls
    return None


def shift_register_form(rep, c, env, inp):
    """Alternative verified shape of the synchroniser: one input_stages-bit register per pin, shifted by one place per
    clock from pin.i, read at its last bit; bypassed when input_stages == 0."""
    site = c.fi.site
    stages = c.parse("self.input_stages")
    conds = {c.norm(ir.parse(t)) for t in ("self.input_stages > 0", "self.input_stages != 0", "self.input_stages", "self.input_stages >= 1")}
    cands = [s for s in c.t.sigs.values() if s.ctor[0] == 'call' and s.ctor[2] and c.norm(s.ctor[2][0]) == stages]
    # third shape: the library's synchroniser cell, FFSynchronizer(pin.i, <wire>, stages=E): E flip-flops in a row
    ffs = [(nm, c.norm(v), gen, ln) for nm, v, gen, ln in c.t.submodules
           if v[0] == 'call' and ir.show(v[1]).split(".")[-1] == "FFSynchronizer"]
    if len(cands) != 1 and ffs:
        for nm, v, gen, ln in ffs:
            kw = dict(v[3])
            e_st = c.norm(kw["stages"]) if "stages" in kw else (c.norm(v[2][2]) if len(v[2]) > 2 else ('const', 2))
            src = v[2][0] if v[2] else kw.get("i")
            if src is not None and c.norm(src) != c.parse("pin.i", env):
                rep.bad("C16.1", site, "synchroniser cell input", f"the cell samples {ir.show(c.norm(src))}, not the pin input", line=ln)
            elif e_st != stages and not (
                    e_st[0] == 'const' or
                    e_st[0] == 'call' and e_st[1] in (('name', 'max'), ('name', 'min')) and stages in e_st[2] and any(a[0] == 'const' for a in e_st[2]) or
                    e_st[0] == 'lin' and len(e_st[2]) == 1 and e_st[2][0][0] == stages and (e_st[1] != 0 or e_st[2][0][1] != 1)):
                rep.unk("C16.1", site, "chain length == input_stages", f"the synchroniser cell is built with stages={ir.show(e_st)}; "
                        "whether that always equals input_stages is not decided")
            elif e_st != stages:
                rep.bad("C16.1", site, "chain length == input_stages",
                        f"the synchroniser cell is built with stages={ir.show(e_st)}: the Input register lags the pin by that many cycles, which "
                        f"differs from the configured {ir.show(stages)} whenever the two expressions differ (e.g. a lower bound of 2 against "
                        "input_stages == 1)", line=ln)
            else:
                # library fact (amaranth.lib.cdc._check_stages, read once and recorded as assumption A7): the cell refuses stages < 2
                # with ValueError.  The peripheral accepts input_stages == 1, so that configuration can no longer be elaborated.
                guards = [c.norm(fr[1]) for fr in gen if fr[0] == 'pyif' and fr[2]]
                excludes_one = any(g == c.norm(ir.parse("self.input_stages > 1")) or g == c.norm(ir.parse("self.input_stages >= 2")) for g in guards)
                if excludes_one:
                    # the other depths: what does the Input field read when the cell is not used?
                    direct = False
                    for dd in (inp or []):
                        v_ = c.norm(dd.value)
                        wants_ = [ir.split_neg(c.norm(ir.parse(t_))) for t_ in ("self.input_stages >= 2", "self.input_stages > 1")]
                        for x in ir.walk(v_):
                            if x[0] != 'phi':
                                continue
                            b_, p_ = ir.split_neg(c.norm(x[1]))
                            for want_b, want_p in wants_:
                                if b_ == want_b:
                                    low_arm = x[3] if p_ == want_p else x[2]        # the arm taken when input_stages < 2
                                    if c.norm(low_arm) == c.parse("pin.i", env):
                                        direct = True
                    if direct:
                        rep.bad("C16.1", site, "chain length == input_stages",
                                "the synchroniser cell is used only for input_stages >= 2 and every other depth reads the pin directly: with "
                                "input_stages == 1 (accepted by the constructor) the Input register shows the pin without the one-cycle delay", line=ln)
                    else:
                        rep.unk("C16.1", site, "synchroniser cell", "FFSynchronizer is used only for input_stages >= 2; the remaining depths are not matched to a verified shape")
                else:
                    rep.bad("C16.1", site, "chain length == input_stages",
                            "FFSynchronizer(stages=self.input_stages) is reached with input_stages == 1, which the constructor accepts; the "
                            "library cell refuses fewer than 2 stages (ValueError), so that configuration fails at elaboration", line=ln)
        return
    if len(cands) != 1:
        rep.unk("C16.1", site, "synchroniser chain", "neither a loop-carried chain starting at pin.i nor one input_stages-bit shift register per pin was found")
        return
    s = cands[0]
    S = ('sig', s.id, s.name)
    guard = [fr for fr in s.gen if fr[0] == 'pyif']
    if len(guard) != 1 or c.norm(guard[0][1]) not in conds or guard[0][2] is not True or not any(fr[0] == 'for' for fr in s.gen):
        rep.unk("C16.1", site, "shift register exists exactly when input_stages > 0, once per pin",
                f"created under {[ir.show(c.norm(fr[1])) if fr[0] == 'pyif' else fr for fr in s.gen]}")
        return
    cond = c.norm(guard[0][1])
    e2 = dict(env, S=S)
    sd = c.drivers_of(S)
    if len(sd) != 1 or sd[0].domain != "sync" or sd[0].dsl or sd[0].gen != s.gen:
        rep.bad("C16.1", site, "shift register update", "the register must have exactly one unconditional sync driver (one place per clock)",
                lines=[x.lineno for x in sd])
        return
    v = c.norm(sd[0].value)
    good = {c.parse("Cat(pin.i, S[:-1])", e2), c.parse("Cat(pin.i, S[:self.input_stages - 1])", e2)}
    if v in good:
        rep.ok("C16.1", site, "shift register: bit 0 takes pin.i, bit k takes bit k-1", ir.show(v))
    else:
        wrong = None
        if v[0] == 'call' and v[1] == ('name', 'Cat') and len(v[2]) == 2:
            if v[2][0] != c.parse("pin.i", env):
                wrong = f"the register is fed from {ir.show(v[2][0])}, not from the pin input"
            elif v[2][1][0] == 'sub' and v[2][1][1] == S and v[2][1][2][0] == 'slice':
                wrong = (f"only {ir.show(v[2][1])} is shifted up: bits beyond that never receive the pin level, so the last bit does "
                         "not follow the pin for deeper chains")
        rep.form(False, "C16.1", site, "shift register: bit 0 takes pin.i, bit k takes bit k-1", f"update is {ir.show(v)}", wrong=wrong)
        return
    if len(inp) != 1 or inp[0].domain != "comb" or inp[0].dsl:
        rep.bad("C16.1", site, "Input field r_data", "must have one unconditional combinational driver (no extra delay)")
        return
    rv = c.norm(inp[0].value)
    want = c.norm(('phi', cond, c.parse("S[-1]", e2), c.parse("pin.i", env)))
    alt = c.norm(('phi', cond, c.parse("S[self.input_stages - 1]", e2), c.parse("pin.i", env)))
    if rv in (want, alt):
        rep.ok("C16.1", site, "Input r_data == last bit of the shift register (pin.i when input_stages == 0)", ir.show(rv)[:120])
        rep.ok("C16.1", site, "chain length == input_stages", f"register width {ir.show(stages)}", nontrivial=True)
        rep.ok("C16.1", site, "one register per pin", "created inside the pin loop", nontrivial=True)
    else:
        wrong = None
        taps = [x for x in ir.walk(rv) if x[0] == 'sub' and x[1] == S and x[2][0] == 'const']
        if taps and all(x[2] != ('const', -1) for x in taps):
            wrong = f"the register is read at {ir.show(taps[0])}: the delay is not input_stages cycles"
        rep.form(False, "C16.1", site, "Input r_data == last bit of the shift register (pin.i when input_stages == 0)",
                 f"value is {ir.show(rv)[:120]}", wrong=wrong)


def synchroniser_stage(f, name):
    """The register `name` of function f is a stage of the input synchroniser: it is loaded (in the sync domain) from the pin
    input `<pin>.i` or from a local that carries the pin input / an earlier stage, and from nothing else."""
    chain = set()

    def from_pin(e):
        while isinstance(e, ast.Subscript):
            e = e.value
        if isinstance(e, ast.Attribute) and e.attr == "i":
            return True
        if isinstance(e, ast.Call) and isinstance(e.func, ast.Name) and e.func.id == "Cat" and e.args:
            return all(from_pin(a) for a in e.args)
        if isinstance(e, (ast.GeneratorExp, ast.ListComp)):
            return from_pin(e.elt)
        # ... or (a slice of) a synchroniser stage itself: a shift register is loaded from the pin and from its own earlier stages
        return isinstance(e, ast.Name) and (e.id in chain or e.id in stages)
    stages = {n.targets[0].id for n in ast.walk(f.node) if isinstance(n, ast.Assign) and len(n.targets) == 1 and
              isinstance(n.targets[0], ast.Name) and isinstance(n.value, ast.Call) and ast.unparse(n.value.func) in ("Signal", "Signal.like") and
              any(k.arg == "reset_less" for k in n.value.keywords)}
    for _ in range(4):
        for n in ast.walk(f.node):
            if isinstance(n, ast.Assign) and len(n.targets) == 1 and isinstance(n.targets[0], ast.Name) and n.targets[0].id not in stages:
                if from_pin(n.value) or (isinstance(n.value, ast.Name) and n.value.id in stages):
                    chain.add(n.targets[0].id)
    loads = [n for n in ast.walk(f.node) if isinstance(n, ast.Call) and isinstance(n.func, ast.Attribute) and n.func.attr == "eq" and
             isinstance(n.func.value, ast.Name) and n.func.value.id == name]
    return name in stages and bool(loads) and all(len(n.args) == 1 and from_pin(n.args[0]) for n in loads)


def synchroniser_is_reset_less(rep, idx):
    """The input synchroniser samples a pin that knows nothing of the clock domain's reset: its stages are declared reset_less=True, so a
    reset of the domain does not wipe the pipeline (Input keeps reporting the pin levels, delayed by exactly input_stages cycles)."""
    f = idx.find_func("gpio:Peripheral.elaborate")
    chain = set()

    def from_pin(e):
        while isinstance(e, ast.Subscript):
            e = e.value
        if isinstance(e, ast.Attribute) and e.attr == "i":
            return True
        if isinstance(e, ast.Call) and isinstance(e.func, ast.Name) and e.func.id == "Cat" and e.args:
            return all(from_pin(a) for a in e.args)
        return isinstance(e, ast.Name) and e.id in chain
    sigs = {}
    for n in ast.walk(f.node):
        if isinstance(n, ast.Assign) and len(n.targets) == 1 and isinstance(n.targets[0], ast.Name) and isinstance(n.value, ast.Call) and \
                ast.unparse(n.value.func) in ("Signal", "Signal.like"):
            sigs[n.targets[0].id] = n
    for _ in range(4):
        for n in ast.walk(f.node):
            if isinstance(n, ast.Assign) and len(n.targets) == 1 and isinstance(n.targets[0], ast.Name):
                if from_pin(n.value) or (isinstance(n.value, ast.Name) and n.value.id in sigs and n.value.id in chain):
                    chain.add(n.targets[0].id)
        # a register loaded (sync) from the chain is itself part of the chain
        for n in ast.walk(f.node):
            if isinstance(n, ast.AugAssign) and isinstance(n.target, ast.Attribute) and n.target.attr == "sync":
                for x in ast.walk(n.value):
                    if isinstance(x, ast.Call) and isinstance(x.func, ast.Attribute) and x.func.attr == "eq" and isinstance(x.func.value, ast.Name) and \
                            x.func.value.id in sigs and len(x.args) == 1 and from_pin(x.args[0]):
                        chain.add(x.func.value.id)
    stages = sorted(nm for nm in sigs if nm in chain)
    for nm in stages:
        call = sigs[nm].value
        rl = next((k.value for k in call.keywords if k.arg == "reset_less"), None)
        ok = isinstance(rl, ast.Constant) and rl.value is True
        rep.check(ok, "C16.6", f.site, f"synchroniser stage `{nm}` is reset_less",
                  f"created as {ast.unparse(call)[:70]}: a reset of the clock domain clears the stage, so for up to input_stages cycles the Input "
                  "register reads 0 for a pin that has been high all along (the pin is not reset with the domain)", nontrivial=False)
    if not stages:
        rep.ok("C16.6", f.site, "synchroniser stages are reset_less", "no register is loaded from the pin inputs here (another synchroniser shape)",
               nontrivial=False)


def run(rep, idx, tier):
    rep.explanation = EXPLANATION
    rep.assume("A2", "A3", "A4", "A7")
    rep.require("C16.1", 4)
    rep.require("C16.2", 3)
    rep.require("C16.3", 4)
    rep.require("C16.4", 1)
    rep.require("C16.5", 5)
    rep.require("C16.6", 2)
    # the pin interface: i is an input of the peripheral, o / oe are its outputs (connect() wires them by these flows)
    rep.require("C16.7", 4)
    from .c20 import member_table, SIG_SPECS
    member_table(rep, idx, idx.find_class("PinSignature"), SIG_SPECS["PinSignature"][1], rule="C16.7")
    from . import glue as _glue
    # pin_count and input_stages are kept as given: the synchroniser depth and the register widths are built from the stored values
    rep.require("C16.8", 2)
    _glue.parameter_views(rep, "C16.8", idx, only_modules=["gpio.py"])
    # the input synchroniser stages are reset-less on purpose (their value after reset is the pin level within
    # input_stages cycles either way); the output storage register is not
    oa = output_action_class(idx)
    _glue.reset_discipline(rep, "C16.6", idx, ["gpio:Peripheral", oa if oa is not None else "gpio:Peripheral.Output._FieldAction"],
                           allowed=[("Peripheral", "pin_i_sync_ff")], allowed_role=synchroniser_stage)
    synchroniser_is_reset_less(rep, idx)
    _glue.write_once_handles(rep, "C16.6", idx, "gpio:Peripheral")
    _glue.vector_mux_selectors(rep, "C16.4", idx, "gpio:Peripheral.elaborate", "no pin's mode switches another pin's drivers through a Mux selector")
    _glue.param_refusals(rep, "C16.5", idx, only=["gpio:Peripheral.__init__"])
    c = get_ctx(idx, "gpio:Peripheral.elaborate")
    ctor = get_ctor(idx, "gpio:Peripheral")
    rep.analysed(c.fi.site, ctor.fi.site)
    rep.count("drivers", len(c.t.drivers))
    site = c.fi.site
    if not require_supported(rep, "C16.1", c):
        return
    roles = register_roles(ctor)
    byname = {name: attr for _, name, attr, _ in roles}
    missing = [n for n in ("Mode", "Input", "Output", "SetClr") if n not in byname]
    if missing:
        rep.bad("C16.5", ctor.fi.site, "register roles", f"registers {missing} are not added to the builder")
        return
    MODE, INPUT, OUTPUT, SETCLR = (c.norm(byname[n]) for n in ("Mode", "Input", "Output", "SetClr"))

    # the per-pin loop
    pin_loops = [L for L in c.t.loops.values() if L.kind in ('enum', 'seq') and c.norm(L.seq) == c.parse("self.pins")]
    pin_loops += [L for L in c.t.loops.values() if L.kind == 'range' and c.norm(L.bounds[1]) in
                  (c.parse("self.pin_count"), c.parse("len(self.pins)")) and c.norm(L.bounds[0]) == ('const', 0)]
    if len(pin_loops) != 1:
        rep.unk("C16.4", site, "per-pin loop", f"expected one loop over self.pins, found {len(pin_loops)}")
        return
    L = pin_loops[0]
    n = ('idx', L.id)
    env = {"n": n, "MODE": MODE, "INPUT": INPUT, "OUTPUT": OUTPUT, "SETCLR": SETCLR,
           "pin": c.parse("self.pins[n]", {"n": n})}
    env["out"] = c.parse("OUTPUT.f.pin[n].data", env)
    # C16.5 (below) verifies that the Output fields and the SetClr set/clr fields are one bit wide (unsigned(1)); with that
    # fact `x.eq(a & b)` and `with m.If(a & b): x.eq(1)` are the same function, so declare these ports Boolean
    bits = [c.show(c.parse(tx, env)) for tx in ("SETCLR.f.pin[n].set.w_data", "SETCLR.f.pin[n].clr.w_data", "OUTPUT.f.pin[n].data",
                                              "OUTPUT.f.pin[n].set", "OUTPUT.f.pin[n].clr", "pin.i", "pin.o", "pin.oe")]
    c = get_ctx(idx, "gpio:Peripheral.elaborate", extra_bits=tuple(bits))

    # ---- C16.1 synchroniser chain ------------------------------------------------------------
    folds = [f for f in c.t.folds.values() if c.norm(f.init) == c.parse("pin.i", env)]
    inp = c.drivers_of(c.parse("INPUT.f.pin[n].r_data", env))
    if not inp and c.drivers_elsewhere(c.parse("INPUT.f.pin[n].r_data", env)):
        rep.unk("C16.1", site, "Input field r_data", "driven in another loop than the per-pin loop the rule follows; that both loops range over "
                "the same pins is not decided")
    elif not inp:
        rep.bad("C16.1", site, "Input field r_data", "the Input register field of the pin is never driven")
    elif len(folds) == 0:
        shift_register_form(rep, c, env, inp)
    else:
        f = folds[0]
        loop = c.t.loops[f.loop]
        bounds_ok = loop.kind == 'range' and c.norm(loop.bounds[0]) == ('const', 0) and \
            c.norm(loop.bounds[1]) == c.parse("self.input_stages")
        rep.check(bounds_ok, "C16.1", site, "chain length == input_stages",
                  f"loop iterates {ir.show(c.norm(loop.iter))}; expected range(0, self.input_stages)")
        upd = c.norm(f.update)
        if upd[0] != 'sig':
            rep.bad("C16.1", site, "chain stage", f"each iteration must rebind the carrier to a fresh register; it is rebound to {ir.show(upd)}")
        else:
            sd = c.drivers_of(upd)
            doms = {d.domain for d in sd}
            if doms != {"sync"}:
                rep.bad("C16.1", site, "chain stage register", f"stage register is driven in {sorted(doms) or 'no domain'}; each stage must add exactly one clock cycle",
                        lines=[d.lineno for d in sd])
            else:
                check_dl(rep, "C16.1", c, "stage' = previous carrier (unconditionally)", sd, dl.HOLD,
                         [("1", ('carry', f.id))])
            inside = all(('for', f.loop) in d.gen for d in sd)
            rep.check(inside and c.t.sigs[upd[1]].gen[-1:] == (('for', f.loop),), "C16.1", site,
                      "one fresh register per iteration", "the stage register must be created inside the chain loop")
        check_dl(rep, "C16.1", c, "Input r_data == end of the chain", inp, "0", [("1", ('final', f.id))]) \
            if {d.domain for d in inp} == {"comb"} else \
            rep.bad("C16.1", site, "Input field r_data", "must be combinational from the end of the chain (no extra delay)")

    # ---- C16.2 mode table ---------------------------------------------------------------------
    members = idx.enums.get("PinMode", {})
    if set(members) != set(MODE_TABLE):
        rep.unk("C16.2", site, "PinMode members", f"enum has {sorted(members)}; role table knows {sorted(MODE_TABLE)}")
    else:
        subj = c.parse("MODE.f.pin[n].data", env)
        sws = [sid for sid, s in c.t.switches.items() if c.norm(s) == subj]
        if len(sws) != 1 and any(x[0] == 'opaque' for s in c.t.switches.values() for x in ir.walk(c.norm(s))):
            rep.unk("C16.2", site, "Switch on the pin's mode field", "a Switch decodes an intermediate wire whose width is not verified "
                    f"against the mode field: {[ir.show(c.norm(s))[:80] for s in c.t.switches.values()]}")
        elif len(sws) > 1:
            rep.bad("C16.2", site, "Switch on the pin's mode field", f"found {len(sws)} Switch statements on {ir.show(subj)}")
        else:
            sid = sws[0] if sws else None

            def case(member):
                if sid is None:
                    # no Switch: the mode is decoded with comparisons `mode == PinMode.X` (same atoms as the Case patterns)
                    return ('formula', c.eng._b(c.norm(('cmp', '==', subj, ('const', members[member]))), True))
                return ('formula', c.eng.frame_formula(('case', sid, (('const', members[member]),), 0)))
            # the four members cover every value of the 2-bit mode field (class PinMode(enum.Enum, shape=unsigned(2)))
            pm = idx.find_class("gpio:PinMode")
            two_bits = any(k.arg == "shape" and ast.unparse(k.value) == "unsigned(2)" for k in pm.node.keywords)
            cover = ('formula', dl.f_or(*[case(mem)[1] for mem in MODE_TABLE])) if two_bits and sorted(members.values()) == [0, 1, 2, 3] else None
            for col, tgt in ((0, "pin.o"), (1, "pin.oe"), (2, "self.alt_mode[n]")):
                ds = c.drivers_of(c.parse(tgt, env))
                if not ds and col == 2 and c.drivers_of(c.parse("self.alt_mode")):
                    ds = c.bit_view(c.parse("self.alt_mode"), n)        # vector-wide assignment: this pin's bit of it
                    if ds is None:
                        rev = [d_ for d_ in c.drivers_of(c.parse("self.alt_mode"))
                               if any(x[0] == 'call' and x[1] == ('name', 'reversed') for x in ir.walk(c.norm(d_.value)))]
                        if rev:
                            rep.bad("C16.2", site, f"{tgt} per mode", "alt_mode is a concatenation over the pins in reversed order: bit n reports the "
                                    "mode of pin pin_count-1-n, not of pin n", lines=[d_.lineno for d_ in rev])
                        else:
                            rep.unk("C16.2", site, f"{tgt} per mode", "alt_mode is assigned as a whole and the value cannot be projected onto one pin's bit")
                        continue
                if not ds and col < 2:
                    rep.bad("C16.2", site, f"{tgt} per mode", "never driven")
                    continue
                if ds and {d.domain for d in ds} != {"comb"}:
                    rep.bad("C16.2", site, f"{tgt} per mode", "must be combinational")
                    continue
                table = [(case(mem), MODE_TABLE[mem][col]) for mem in MODE_TABLE]
                check_dl(rep, "C16.2", c, f"{tgt} per mode: " + ", ".join(f"{m}:{MODE_TABLE[m][col]}" for m in MODE_TABLE),
                         ds, "0", table, env, assume=cover)

    # ---- C16.3 set / clr decode ----------------------------------------------------------------
    for which in ("set", "clr"):
        ds = c.drivers_of(c.parse(f"OUTPUT.f.pin[n].{which}", env))
        if not ds and c.drivers_elsewhere(c.parse(f"OUTPUT.f.pin[n].{which}", env)):
            rep.unk("C16.3", site, f"Output field {which} input", "driven in another loop than the per-pin loop the rule follows; that both loops "
                    "range over the same pins is not decided")
            continue
        if not ds or {d.domain for d in ds} != {"comb"}:
            rep.bad("C16.3", site, f"Output field {which} input", "must be driven combinationally from the SetClr write")
            continue
        check_dl(rep, "C16.3", c, f"output.{which} == setclr.{which}.w_stb & setclr.{which}.w_data", ds, "0",
                 [(f"SETCLR.f.pin[n].{which}.w_stb & SETCLR.f.pin[n].{which}.w_data", "1")], env)
    oa_ = output_action_class(idx)
    fa = get_ctx(idx, oa_.method("elaborate") if oa_ is not None and oa_.method("elaborate") is not None
                 else "gpio:Peripheral.Output._FieldAction.elaborate")
    rep.analysed(fa.fi.site)
    if require_supported(rep, "C16.3", fa):
        rd = fa.drivers_of(fa.parse("self.port.r_data"))
        if len(rd) != 1:
            rep.bad("C16.3", fa.fi.site, "Output field read-back", "port.r_data must have one unconditional driver (the storage bit)")
        else:
            S = fa.norm(rd[0].value)
            single_unconditional(rep, "C16.3", fa, "Output field: port.r_data == storage", fa.parse("self.port.r_data"), "comb", S)
            if S == fa.norm(fa.parse("self.data")):
                # the output port is itself the register (an output member has init 0 and is reset with its domain, like the
                # private register it replaces): nothing to copy
                rep.ok("C16.3", fa.fi.site, "Output field: data == storage", "the `data` output is the storage register itself")
            else:
                single_unconditional(rep, "C16.3", fa, "Output field: data == storage", fa.parse("self.data"), "comb", S)
            sd = fa.drivers_of(S)
            if {d.domain for d in sd} != {"sync"}:
                rep.bad("C16.3", fa.fi.site, "Output field storage", "storage must be a sync register")
            else:
                check_dl(rep, "C16.3", fa, "storage' = (set != clr) ? set : w_stb ? w_data : hold", sd, dl.HOLD,
                         [("self.set != self.clr", "self.set"), ("self.port.w_stb", "self.port.w_data")])
    setclr_order(rep, idx)

    # ---- C16.4 pin independence -----------------------------------------------------------------
    bad = []
    nsub = 0
    for d in c.t.drivers:
        if ('for', L.id) not in d.gen:
            continue
        exprs = [c.norm(d.target), c.norm(d.value)]
        for fr in d.dsl:
            if fr[0] in ('if', 'elif'):
                exprs.append(c.norm(fr[1]))
        for sid, s in c.t.switches.items():
            pass
        for e in exprs:
            for x in ir.walk(e):
                if x[0] == 'sub' and x[2][0] != 'slice' and per_pin_collection(x[1]):
                    nsub += 1
                    if x[2] != n:
                        bad.append((d.lineno, ir.show(x)))
    for s in c.t.switches.values():
        for x in ir.walk(c.norm(s)):
            if x[0] == 'sub' and x[2][0] != 'slice' and per_pin_collection(x[1]) and any(
                    y == n for y in ir.walk(x)) is False and L.id in _loops_of_switch(c, s):
                bad.append((0, ir.show(x)))
    rep.count("per_pin_subscripts", nsub)
    if bad:
        for ln, txt in bad:
            rep.bad("C16.4", site, txt, f"per-pin collection indexed with something other than the pin loop index (line {ln})")
    else:
        rep.ok("C16.4", site, "every per-pin subscript is the loop index", f"{nsub} subscripts of per-pin collections checked")

    register_map(rep, idx, ctor, roles)


def _loops_of_switch(c, s):
    return set()


def per_pin_collection(e):
    if e[0] == 'attr' and e[2] in ('pin', 'pins', 'alt_mode'):
        return True
    return False


def setclr_order(rep, idx):
    cls = idx.find_class("gpio:Peripheral.SetClr")
    init = cls.method("__init__")
    keys = None
    for n in ast.walk(init.node):
        if isinstance(n, ast.Dict) and all(isinstance(k, ast.Constant) for k in n.keys):
            ks = [k.value for k in n.keys]
            if set(ks) == {"set", "clr"}:
                keys = ks
    rep.check(keys == ["set", "clr"], "C16.3", cls.site, "SetClr field order: set (bit 0), clr (bit 1)",
              f"pin field dict keys are {keys}; code 0b01 must set and 0b10 must clear")


FIELD_SHAPES = {
    "Mode": ("RW", "PinMode"),
    "Input": ("R", "unsigned(1)"),
    "SetClr": ("W", "unsigned(1)"),
}


def register_map(rep, idx, ctor, roles):
    site = ctor.fi.site
    order = [name for _, name, _, _ in roles]
    rep.check(order == ["Mode", "Input", "Output", "SetClr"], "C16.5", site, "register order Mode, Input, Output, SetClr",
              f"registers are added in the order {order}")
    # the builder places the registers (each padded to a power of two of bus words, naturally aligned): an offset computed in the
    # constructor has to reproduce that for every pin count and data width, which the rule does not re-derive
    explicit = [(name, dict(val[3]).get('offset')) for _, name, attr, val in roles if val[0] == 'call' and 'offset' in dict(val[3])]
    if explicit:
        rep.unk("C16.5", site, "the registers are placed by the builder (no explicit offsets)",
                f"{[n for n, _ in explicit]} are added at explicit offsets ({ir.show(explicit[0][1])[:70]}); whether these agree with the "
                "builder's padding and natural alignment for every pin_count / data_width (registers of 3, 5, 6, 7 bus words are "
                "padded to 4 / 8 addresses) is not decided")
    else:
        rep.ok("C16.5", site, "the registers are placed by the builder (no explicit offsets)", "implicit placement", nontrivial=False)
    for _, name, attr, val in roles:
        if len(val[2]) < 2:
            continue
        reg = val[2][1]
        cls = idx.resolve_class(reg[1], ctor.fi.module, ctor.fi.cls) if reg[0] == 'call' else None
        if cls is None:
            rep.unk("C16.5", site, f"{name} register class", f"cannot resolve {ir.show(reg)}")
            continue
        init = cls.method("__init__")
        fields = []
        for n in ast.walk(init.node):
            if isinstance(n, ast.Call) and ast.unparse(n.func).endswith("Field"):
                fields.append(ir.norm(ir.from_ast(n, {})))
        if name in FIELD_SHAPES:
            act, shape = FIELD_SHAPES[name]
            ok = bool(fields) and all(f[2] and f[2][0][0] == 'attr' and f[2][0][2] == act and
                                      len(f[2]) > 1 and ir.show(f[2][1]) == shape for f in fields)
            rep.check(ok, "C16.5", cls.site, f"{name} fields are {act} of shape {shape}",
                      f"fields: {[ir.show(f) for f in fields]}")
        else:
            oa2 = output_action_class(idx)
            ok = len(fields) == 1 and fields[0][2] and oa2 is not None and ir.show(fields[0][2][0]).split(".")[-1] == oa2.name
            rep.check(ok, "C16.5", cls.site, "Output fields use the set/clr-aware field action",
                      f"fields: {[ir.show(f) for f in fields]}")
            if oa2 is not None:
                # the action itself: one bit per pin -- its port shape, its members and its storage are unsigned(1)
                from .c20 import member_table
                try:
                    member_table(rep, idx, oa2, {"data": ("Out", "unsigned(1)", None), "set": ("In", "unsigned(1)", None),
                                                 "clr": ("In", "unsigned(1)", None),
                                                 "port": ("In", "FieldPort.Signature(shape, access)", None)}, rule="C16.5")
                except Exception as e:
                    rep.unk("C16.5", oa2.site, "Output field action members", f"cannot decide: {type(e).__name__}: {e}")
                oinit = oa2.method("__init__")
                one = ir.norm(ir.parse("unsigned(1)"))
                sup = [n for n in ast.walk(oinit.node) if isinstance(n, ast.Call) and ast.unparse(n.func) == "super().__init__"] if oinit else []
                shp = None
                for n in sup:
                    for k_ in n.keywords:
                        if k_.arg == "shape":
                            shp = ir.norm(ir.from_ast(k_.value, {}))
                    if shp is None and n.args:
                        shp = ir.norm(ir.from_ast(n.args[0], {}))
                rep.form(shp in (one, ('const', 1)), "C16.5", oa2.site, "the Output field action is one bit wide (port shape unsigned(1))",
                         f"super().__init__(shape={ir.show(shp) if shp else None})",
                         wrong=(f"the port is declared {ir.show(shp)}: one Output bit per pin is the register layout the property describes")
                         if shp is not None and shp[0] in ('call', 'const') and shp not in (one, ('const', 1)) else None)
                sts = [n for n in ast.walk(oinit.node) if isinstance(n, ast.Assign) and isinstance(n.value, ast.Call) and
                       ast.unparse(n.value.func) == "Signal"] if oinit else []
                for n in sts:
                    a0 = ir.norm(ir.from_ast(n.value.args[0], {})) if n.value.args else ('const', 1)
                    rep.form(a0 in (one, ('const', 1)), "C16.5", oa2.site, f"{ast.unparse(n.targets[0])} of the Output field action is one bit wide",
                             f"created as {ast.unparse(n.value)[:60]}",
                             wrong=(f"the storage is {ir.show(a0)} wide") if a0[0] in ('call', 'const') and a0 not in (one, ('const', 1)) else None)
        # one field per pin
        per_pin = any(isinstance(n, ast.ListComp) and ast.unparse(n.generators[0].iter) == "range(pin_count)"
                      for n in ast.walk(init.node))
        rep.check(per_pin, "C16.5", cls.site, f"{name}: one field (group) per pin", "expected a list built over range(pin_count)",
                  nontrivial=False)
    br = ctor.stored("self._bridge")
    found = None
    for key, (val, gen, ln) in ctor.stores.items():
        if val[0] == 'call' and ir.show(val[1]).endswith("Bridge"):
            found = val
    ok = found is not None and found[2] and found[2][0][0] == 'call' and found[2][0][1][0] == 'attr' and \
        found[2][0][1][2] == 'as_memory_map'
    rep.check(ok, "C16.5", site, "bridge is built over builder.as_memory_map()", f"bridge: {ir.show(found) if found else None}")
