# mutants written for the second-round rules (C02.10, C19.8, C08.7, C02.6 LAST, C03.2 dependency, C19.2 while)
M = [
 ("q01_arb_succ_loop_overruns", "amaranth_soc/wishbone/bus.py",
  "                        for succ in reversed(range(i + 1, len(requests))):",
  "                        for succ in reversed(range(i + 1, len(requests) + 1)):"),
 ("q02_resources_memo", "amaranth_soc/memory.py",
  "        def is_resource(item):\n            addr_range, assignment = item\n            return id(assignment) in self._resources\n        for resource_range, resource in filter(is_resource, self._ranges.items()):",
  "        def is_resource(item):\n            addr_range, assignment = item\n            return id(assignment) in self._resources\n        if getattr(self, \"_res_items\", None) is None:\n            self._res_items = list(filter(is_resource, self._ranges.items()))\n        for resource_range, resource in self._res_items:"),
 ("q03_prepare_max_unguarded", "amaranth_soc/csr/bus.py",
  "            registers = defaultdict(list)\n            balanced  = True\n",
  "            registers = defaultdict(list)\n            balanced  = True\n            limit = 2 ** ceil_log2(max(reg_range.stop for reg_range in self._ranges))\n"),
 ("q04_translate_start_ignores_window_base", "amaranth_soc/memory.py",
  "        width = resource_info.width * window_range.step",
  "        width = self.data_width"),
 ("q05_overlaps_last_element", "amaranth_soc/memory.py",
  "        stop_idx  = bisect.bisect_left(self._starts, key.stop)",
  "        stop_idx  = bisect.bisect_right(self._starts, key[-1])"),
]
