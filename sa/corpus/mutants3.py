# Reverts of the fix: commits (fixed text -> original defective text), generated from git history.
# The rule that found each defect must report it again if it ever returns.
# (id, file, [(old, new), ...], None)
M = [('r3_revert_D3_eventmonitor_port',
  'amaranth_soc/csr/event.py',
  [('        super().__init__({\n'
    '            "src": Out(self._monitor.src.signature),\n'
    '            "bus": In(self._mux.bus.signature.flip()),\n'
    '        })\n'
    '        self.bus.memory_map = self._mux.bus.memory_map\n',
    '        super().__init__({\n'
    '            "src": Out(self._monitor.src.signature),\n'
    '            "bus": In(self._mux.bus.signature),\n'
    '        })\n'
    '        self.bus.memory_map = self._mux.bus.memory_map\n'),
   ('\n'
    '        connect(m, flipped(self.src), self._monitor.src)\n'
    '        connect(m, flipped(self.bus), self._mux.bus)\n'
    '\n'
    '        with m.If(self._enable.element.w_stb):\n',
    '\n'
    '        connect(m, flipped(self.src), self._monitor.src)\n'
    '        connect(m, self.bus, self._mux.bus)\n'
    '\n'
    '        with m.If(self._enable.element.w_stb):\n')],
  None),
 ('r1_revert_D1_mux_shadows',
  'amaranth_soc/csr/bus.py',
  [('        self._shadow_overlaps = shadow_overlaps\n'
    '        super().__init__({\n'
    '            "bus": In(Signature(addr_width=memory_map.addr_width,\n',
    '        self._r_shadow = self._Shadow(memory_map.data_width, shadow_overlaps, name="r_shadow")\n'
    '        self._w_shadow = self._Shadow(memory_map.data_width, shadow_overlaps, name="w_shadow")\n'
    '        super().__init__({\n'
    '            "bus": In(Signature(addr_width=memory_map.addr_width,\n'),
   ('        m = Module()\n'
    '\n'
    '        # Shadow registers are local to an elaboration, so that a multiplexer can be elaborated\n'
    '        # more than once.\n'
    '        r_shadow = self._Shadow(self.bus.data_width, self._shadow_overlaps, name="r_shadow")\n'
    '        w_shadow = self._Shadow(self.bus.data_width, self._shadow_overlaps, name="w_shadow")\n'
    '\n'
    '        for reg, _, (reg_start, reg_end) in self.bus.memory_map.resources():\n'
    '            reg_range = range(reg_start, reg_end)\n'
    '            if reg.element.access.readable():\n'
    '                r_shadow.add(reg_range)\n'
    '            if reg.element.access.writable():\n'
    '                w_shadow.add(reg_range)\n'
    '\n'
    '        r_shadow.prepare()\n'
    '        w_shadow.prepare()\n'
    '\n'
    '        # Instead of a straightforward multiplexer for reads, use an address comparator for each\n',
    '        m = Module()\n'
    '\n'
    '        for reg, _, (reg_start, reg_end) in self.bus.memory_map.resources():\n'
    '            reg_range = range(reg_start, reg_end)\n'
    '            if reg.element.access.readable():\n'
    '                self._r_shadow.add(reg_range)\n'
    '            if reg.element.access.writable():\n'
    '                self._w_shadow.add(reg_range)\n'
    '\n'
    '        self._r_shadow.prepare()\n'
    '        self._w_shadow.prepare()\n'
    '\n'
    '        # Instead of a straightforward multiplexer for reads, use an address comparator for each\n'),
   ('        r_data_fanin = 0\n'
    '\n'
    '        for chunk_offset, r_chunk in r_shadow.chunks():\n'
    '            # Use the same trick to select which CSR register is read into a shadow register chunk.\n'
    '            r_chunk_w_en_fanin = 0\n',
    '        r_data_fanin = 0\n'
    '\n'
    '        for chunk_offset, r_chunk in self._r_shadow.chunks():\n'
    '            # Use the same trick to select which CSR register is read into a shadow register chunk.\n'
    '            r_chunk_w_en_fanin = 0\n'),
   ('            with m.Switch(self.bus.addr):\n'
    '                for reg_range in r_chunk.registers():\n'
    '                    chunk_addr = r_shadow.encode_offset(chunk_offset, reg_range)\n'
    '                    reg        = self.bus.memory_map.decode_address(reg_range.start)\n'
    '                    reg_offset = chunk_addr - reg_range.start\n',
    '            with m.Switch(self.bus.addr):\n'
    '                for reg_range in r_chunk.registers():\n'
    '                    chunk_addr = self._r_shadow.encode_offset(chunk_offset, reg_range)\n'
    '                    reg        = self.bus.memory_map.decode_address(reg_range.start)\n'
    '                    reg_offset = chunk_addr - reg_range.start\n'),
   ('        m.d.comb += self.bus.r_data.eq(r_data_fanin)\n'
    '\n'
    '        for chunk_offset, w_chunk in w_shadow.chunks():\n'
    '            with m.Switch(self.bus.addr):\n'
    '                for reg_range in w_chunk.registers():\n'
    '                    chunk_addr = w_shadow.encode_offset(chunk_offset, reg_range)\n'
    '                    reg        = self.bus.memory_map.decode_address(reg_range.start)\n'
    '                    reg_offset = chunk_addr - reg_range.start\n',
    '        m.d.comb += self.bus.r_data.eq(r_data_fanin)\n'
    '\n'
    '        for chunk_offset, w_chunk in self._w_shadow.chunks():\n'
    '            with m.Switch(self.bus.addr):\n'
    '                for reg_range in w_chunk.registers():\n'
    '                    chunk_addr = self._w_shadow.encode_offset(chunk_offset, reg_range)\n'
    '                    reg        = self.bus.memory_map.decode_address(reg_range.start)\n'
    '                    reg_offset = chunk_addr - reg_range.start\n')],
  None),
 ('r2_revert_D2_prepare_bound',
  'amaranth_soc/csr/bus.py',
  [('                    self._chunks[chunk_offset] = chunk\n'
    '            else:\n'
    '                # Once every address bit of every register takes part in the decoding, doubling\n'
    '                # the shadow size again cannot separate the registers that still share a chunk.\n'
    '                if self._size >= 2 ** ceil_log2(max(reg_range.stop for reg_range in self._ranges)):\n'
    '                    raise ValueError(f"Shadow register {self.name!r} cannot be balanced: CSR "\n'
    '                                     f"registers that are not naturally aligned share chunks "\n'
    '                                     f"beyond the limit of {self.overlaps} overlaps")\n'
    '                self._size *= 2\n'
    '                self.prepare()\n',
    '                    self._chunks[chunk_offset] = chunk\n            else:\n                self._size *= 2\n                self.prepare()\n')],
  None),
 ('r4_revert_D4_sram_ports',
  'amaranth_soc/wishbone/sram.py',
  [('        self._mem      = Memory(self._mem_data)\n'
    '\n'
    '        # Memory ports cannot be requested once the memory has been elaborated; create them here\n'
    '        # so that this component can be elaborated more than once.\n'
    '        self._read_port = self._mem.read_port()\n'
    '        if self._writable:\n'
    '            self._write_port = self._mem.write_port(granularity=granularity)\n'
    '\n'
    '        super().__init__({"wb_bus": In(Signature(addr_width=exact_log2(self._mem.depth),\n'
    '                                                 data_width=data_width, granularity=granularity))})\n',
    '        self._mem      = Memory(self._mem_data)\n'
    '\n'
    '        super().__init__({"wb_bus": In(Signature(addr_width=exact_log2(self._mem.depth),\n'
    '                                                 data_width=data_width, granularity=granularity))})\n'),
   ('        m.submodules.mem = self._mem\n\n        read_port = self._read_port\n        m.d.comb += [\n            read_port.addr.eq(self.wb_bus.adr),\n',
    '        m.submodules.mem = self._mem\n'
    '\n'
    '        read_port = self._mem.read_port()\n'
    '        m.d.comb += [\n'
    '            read_port.addr.eq(self.wb_bus.adr),\n'),
   ('\n        if self.writable:\n            write_port = self._write_port\n            m.d.comb += [\n                write_port.addr.eq(self.wb_bus.adr),\n',
    '\n'
    '        if self.writable:\n'
    '            write_port = self._mem.write_port(granularity=self.wb_bus.granularity)\n'
    '            m.d.comb += [\n'
    '                write_port.addr.eq(self.wb_bus.adr),\n')],
  None),
 ('r5_revert_D5_field_path_join',
  'amaranth_soc/csr/reg.py',
  [('            width += Shape.cast(field.port.shape).width\n'
    '            if field.port.access.readable() and not access.readable():\n'
    '                raise ValueError(f"Field {\'__\'.join(str(key) for key in field_path)} is readable, but "\n'
    '                                 f"element access "\n'
    '                                 f"mode is {access}")\n'
    '            if field.port.access.writable() and not access.writable():\n'
    '                raise ValueError(f"Field {\'__\'.join(str(key) for key in field_path)} is writable, but "\n'
    '                                 f"element access "\n'
    '                                 f"mode is {access}")\n'
    '\n',
    '            width += Shape.cast(field.port.shape).width\n'
    '            if field.port.access.readable() and not access.readable():\n'
    '                raise ValueError(f"Field {\'__\'.join(field_path)} is readable, but element access "\n'
    '                                 f"mode is {access}")\n'
    '            if field.port.access.writable() and not access.writable():\n'
    '                raise ValueError(f"Field {\'__\'.join(field_path)} is writable, but element access "\n'
    '                                 f"mode is {access}")\n'
    '\n')],
  None),
 ('r6_revert_D6_reg_name_join',
  'amaranth_soc/csr/reg.py',
  [('        reg_names = ["__".join(str(part) for part in reg_name)\n',
    '        reg_names = ["__".join(reg_name)\n'),
   ('                m.submodules["__".join(str(part) for part in reg_name)] = reg\n',
    '                m.submodules["__".join(reg_name)] = reg\n')],
  None),
 # ce9095a fix: declare event.Monitor.pending as an output
 ("r7_revert_D8_monitor_pending", "amaranth_soc/event.py",
  "            \"pending\": Out(event_map.size),",
  "            \"pending\": In(event_map.size),"),
 # 27c8276 fix: keep submodule names unique in csr.Register and csr.Bridge
 ('r8_revert_D10_register_field_names',
  'amaranth_soc/csr/reg.py',
  [('            if field_path and field_names.count(field_name) == 1:\n',
    '            if field_path:\n')],
  None),
 ('r9_revert_D10_bridge_reg_names',
  'amaranth_soc/csr/reg.py',
  [('            if unambiguous:\n                m.submodules["__".join(str(part) for part in reg_name)] = reg\n            else:\n                m.submodules[f"reg_{reg_index}"] = reg\n',
    '            m.submodules["__".join(str(part) for part in reg_name)] = reg\n')],
  None),
 ('r10_D10_bridge_forgets_mux',
  'amaranth_soc/csr/reg.py',
  [('        unambiguous = len(set(reg_names + ["mux"])) == len(reg_names) + 1\n',
    '        unambiguous = len(set(reg_names)) == len(reg_names)\n')],
  None),
 ('r11_D10_register_count_at_least_one',
  'amaranth_soc/csr/reg.py',
  [('            if field_path and field_names.count(field_name) == 1:\n',
    '            if field_path and field_names.count(field_name) >= 1:\n')],
  None),
 # 441eb76 fix: csr.reg: leave builder scopes outside of the assert statement
 ('r12_revert_D11_scope_pop_in_assert',
  'amaranth_soc/csr/reg.py',
  [('            scope = self._scope_stack.pop()\n            assert scope == name\n',
    '            assert self._scope_stack.pop() == name\n')],
  None),
 # survivors of the mutation sweep (tools/mutsweep.py) in the D10 repair
 ('r13_D10_register_count_not_one',
  'amaranth_soc/csr/reg.py',
  [('            if field_path and field_names.count(field_name) == 1:\n',
    '            if field_path and field_names.count(field_name) != 1:\n')],
  None),
 ('r14_D10_bridge_flag_negated',
  'amaranth_soc/csr/reg.py',
  [('        unambiguous = len(set(reg_names + ["mux"])) == len(reg_names) + 1\n',
    '        unambiguous = len(set(reg_names + ["mux"])) != len(reg_names) + 1\n')],
  None),
 ('r15_D10_bridge_flag_off_by_one',
  'amaranth_soc/csr/reg.py',
  [('        unambiguous = len(set(reg_names + ["mux"])) == len(reg_names) + 1\n',
    '        unambiguous = len(set(reg_names + ["mux"])) == len(reg_names) + 2\n')],
  None),
 # D12 reverted: PinSignature without __eq__ (identity comparison inherited from wiring.Signature)
 ('r16_D12_pinsignature_eq_removed',
  'amaranth_soc/gpio.py',
  [('        return isinstance(other, PinSignature)\n',
    '        return self is other\n')],
  None),
 # D13 reverted: features validated in one traversal and stored from a second one
 ('r18_D13_features_traversed_twice',
  'amaranth_soc/wishbone/bus.py',
  [('        features = frozenset(Feature(f) for f in features) # raises ValueError if a feature is invalid\n',
    '        for feature in features:\n            Feature(feature) # raises ValueError if feature is invalid\n'),
   ('        self._features    = features\n',
    '        self._features    = frozenset(Feature(f) for f in features)\n')],
  None),
 # D15 reverted: the subordinate is recorded before its window is accepted
 ('r19_D15_csr_decoder_add_store_first',
  'amaranth_soc/csr/bus.py',
  [('        window_range = self.bus.memory_map.add_window(sub_bus.memory_map, name=name, addr=addr)\n        # The subordinate is only recorded once its window has been accepted.\n        self._subs[sub_bus.memory_map] = sub_bus\n        return window_range\n',
    '        self._subs[sub_bus.memory_map] = sub_bus\n        return self.bus.memory_map.add_window(sub_bus.memory_map, name=name, addr=addr)\n')],
  None),
 ('r20_D15_wb_decoder_add_store_first',
  'amaranth_soc/wishbone/bus.py',
  [('        # The subordinate is only recorded once its window has been accepted.\n        self._subs[sub_bus.memory_map] = sub_bus\n        return window_range\n',
    '        return window_range\n'),
   ('        window_range = self.bus.memory_map.add_window(sub_bus.memory_map, name=name, addr=addr,\n',
    '        self._subs[sub_bus.memory_map] = sub_bus\n        window_range = self.bus.memory_map.add_window(sub_bus.memory_map, name=name, addr=addr,\n')],
  None),
 # D16 reverted (one of the six sites): the storage view is iterated directly
 ('r21_D16_w1c_iterates_view',
  'amaranth_soc/csr/action.py',
  [('        hw_set  = Value.cast(self.set)\n\n        for i, storage_bit in enumerate(storage):\n',
    '        hw_set  = Value.cast(self.set)\n\n        for i, storage_bit in enumerate(self._storage):\n')],
  None),
 # D17 reverted: shadow_overlaps stored unchecked
 ('r22_D17_shadow_overlaps_unchecked',
  'amaranth_soc/csr/bus.py',
  [('        if shadow_overlaps is not None and not (isinstance(shadow_overlaps, int) and\n                                                shadow_overlaps >= 0):\n            raise TypeError(f"Shadow overlaps must be a non-negative integer or None, not "\n                            f"{shadow_overlaps!r}")\n',
    '')],
  None),
 ('r17_D12_pinsignature_eq_constant',
  'amaranth_soc/gpio.py',
  [('        return isinstance(other, PinSignature)\n',
    '        return True\n')],
  None),
]
