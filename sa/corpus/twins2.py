# second batch of behaviour-preserving edits written during the build (structural refactorings)
M = [
 ("u01_mux_split_halves", "amaranth_soc/csr/bus.py",
  [("        r_data_fanin = 0\n\n        for chunk_offset, r_chunk in r_shadow.chunks():",
    "        self._elaborate_reads(m, r_shadow)\n        self._elaborate_writes(m, w_shadow)\n        return m\n\n    def _elaborate_reads(self, m, r_shadow):\n        r_data_fanin = 0\n\n        for chunk_offset, r_chunk in r_shadow.chunks():"),
   ("        m.d.comb += self.bus.r_data.eq(r_data_fanin)\n\n        for chunk_offset, w_chunk in w_shadow.chunks():",
    "        m.d.comb += self.bus.r_data.eq(r_data_fanin)\n\n    def _elaborate_writes(self, m, w_shadow):\n        for chunk_offset, w_chunk in w_shadow.chunks():"),
   ("            with m.If(w_chunk.w_en):\n                m.d.sync += w_chunk.data.eq(self.bus.w_data)\n\n        return m\n",
    "            with m.If(w_chunk.w_en):\n                m.d.sync += w_chunk.data.eq(self.bus.w_data)\n")],
  None),
 ("u02_gpio_pin_helper", "amaranth_soc/gpio.py",
  [("        for n, pin in enumerate(self.pins):\n            pin_i_sync = pin.i",
    "        for n, pin in enumerate(self.pins):\n            self._elaborate_pin(m, n, pin)\n\n        return m\n\n    def _elaborate_pin(self, m, n, pin):\n        if True:\n            pin_i_sync = pin.i"),
   ("                    m.d.comb += self.alt_mode[n].eq(1)\n\n        return m\n",
    "                    m.d.comb += self.alt_mode[n].eq(1)\n")],
  None),
 ("u03_arbiter_split", "amaranth_soc/wishbone/bus.py",
  [("        with m.If(~bus_busy):\n            with m.Switch(grant):\n                for i in range(len(requests)):",
    "        self._elaborate_grant(m, bus_busy, grant, requests)\n        self._elaborate_datapath(m, grant)\n        return m\n\n    def _elaborate_grant(self, m, bus_busy, grant, requests):\n        with m.If(~bus_busy):\n            with m.Switch(grant):\n                for i in range(len(requests)):"),
   ("                                m.d.sync += grant.eq(succ)\n\n        with m.Switch(grant):\n            for i, intr_bus in enumerate(self._intrs):",
    "                                m.d.sync += grant.eq(succ)\n\n    def _elaborate_datapath(self, m, grant):\n        with m.Switch(grant):\n            for i, intr_bus in enumerate(self._intrs):"),
   ("                        m.d.comb += intr_bus_stall.eq(getattr(self.bus, \"stall\", ~self.bus.ack))\n\n        return m\n",
    "                        m.d.comb += intr_bus_stall.eq(getattr(self.bus, \"stall\", ~self.bus.ack))\n")],
  None),
]

def _rename_all(path, pairs):
    """(old, new) applied to every occurrence: expressed as one whole-file replacement computed at load time."""
    import os
    repo = os.environ.get("VERIF_REPO", "/repo")
    with open(os.path.join(repo, path)) as f:
        old = f.read()
    import re
    new = old
    for a, b in pairs:
        new = re.sub(r"(?<![A-Za-z0-9_])" + re.escape(a) + r"(?![A-Za-z0-9_])", b, new)
    return [(old, new)]


M += [
 ("u04_rename_memorymap_private", "amaranth_soc/memory.py",
  _rename_all("amaranth_soc/memory.py", [("_ranges", "_rmap"), ("_next_addr", "_cursor"), ("_resources", "_res_table"),
                                          ("_windows", "_win_table"), ("_starts", "_lo"), ("_stops", "_hi")]), None),
 ("u05_rename_decoder_arbiter_private", "amaranth_soc/wishbone/bus.py",
  _rename_all("amaranth_soc/wishbone/bus.py", [("_subs", "_children"), ("_intrs", "_masters")]), None),
 ("u06_rename_builder_eventmap_private", "amaranth_soc/csr/reg.py",
  _rename_all("amaranth_soc/csr/reg.py", [("_scope_stack", "_scopes")]), None),
]
