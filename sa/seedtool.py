#!/venv/bin/python
"""Seeded-defect tooling.

  seedtool.py verify <dir>...    confirm a seeded change independently in a scratch worktree of /repo:
                                 patch applies, test suite passes with it, demo fails with it, demo passes without
  seedtool.py import <dir>...    verify, then copy patch.diff / demo.py / meta.json to /verif/seeded/<name>/
  seedtool.py detect [<name>...] run every built check against each seeded change (scratch copy of the package
                                 with the patch applied; /repo itself is never modified) and print what fires
"""
import json
import os
import shutil
import subprocess
import sys
import tempfile
from concurrent.futures import ProcessPoolExecutor

HERE = os.path.dirname(os.path.abspath(__file__))
VERIF = os.path.dirname(HERE)
sys.path.insert(0, VERIF)
SEEDED = os.path.join(VERIF, "seeded")
PY = "/venv/bin/python"


def sh(cmd, cwd=None, env=None, timeout=900):
    p = subprocess.run(cmd, shell=True, cwd=cwd, env=env, capture_output=True, text=True, timeout=timeout)
    return p.returncode, (p.stdout + p.stderr)


def verify(d):
    """Returns dict with the three confirmations."""
    d = os.path.abspath(d)
    patch = os.path.join(d, "patch.diff")
    demo = os.path.join(d, "demo.py")
    out = {"dir": d}
    wt = tempfile.mkdtemp(prefix="verif-seedwt-")
    os.rmdir(wt)
    rc, o = sh(f"git -C /repo worktree add -q --detach {wt} HEAD")
    if rc != 0:
        out["error"] = "worktree: " + o
        return out
    try:
        env = dict(os.environ, PYTHONPATH=wt, PYTHONDONTWRITEBYTECODE="1")
        rc, o = sh(f"git apply --check {patch}", cwd=wt)
        out["applies"] = rc == 0
        if rc != 0:
            out["error"] = o[-300:]
            return out
        rc, o = sh(f"{PY} {demo}", cwd=wt, env=env)
        out["demo_clean_ok"] = rc == 0
        sh(f"git apply {patch}", cwd=wt)
        rc, o = sh(f"{PY} -m pytest -q -p no:cacheprovider -x", cwd=wt, env=env)
        tail = o.strip().splitlines()[-1] if o.strip() else ""
        out["suite_passes_with_change"] = rc == 0
        out["suite_tail"] = tail
        rc, o = sh(f"{PY} {demo}", cwd=wt, env=env)
        out["demo_fails_with_change"] = rc != 0
        out["demo_failure"] = o.strip().splitlines()[-1][:200] if o.strip() else ""
    finally:
        sh(f"git -C /repo worktree remove --force {wt}")
        shutil.rmtree(wt, ignore_errors=True)
    out["confirmed"] = bool(out.get("applies") and out.get("demo_clean_ok") and out.get("suite_passes_with_change")
                            and out.get("demo_fails_with_change"))
    return out


def do_import(d):
    r = verify(d)
    name = os.path.basename(os.path.abspath(d))
    if not r.get("confirmed"):
        print(f"{name}: NOT CONFIRMED {json.dumps(r)}")
        return False
    dst = os.path.join(SEEDED, name)
    os.makedirs(dst, exist_ok=True)
    for f in ("patch.diff", "demo.py"):
        shutil.copy(os.path.join(d, f), os.path.join(dst, f))
    meta = {}
    mp = os.path.join(d, "meta.json")
    if os.path.exists(mp):
        with open(mp) as f:
            meta = json.load(f)
    meta["confirmed_by"] = ("scratch worktree of /repo HEAD: `git apply patch.diff`; `pytest -q` passes with the change "
                            f"({r['suite_tail']}); demo.py exits non-zero with the change ({r['demo_failure']}); demo.py "
                            "prints ok on the unmodified tree")
    meta["base_commit"] = sh("git -C /repo rev-parse --short HEAD")[1].strip()
    with open(os.path.join(dst, "meta.json"), "w") as f:
        json.dump(meta, f, indent=1)
    print(f"{name}: imported ({r['suite_tail']})")
    return True


TWINS = os.path.join(VERIF, "twins")


def import_twin(d):
    """A behaviour-preserving change: confirm it applies and keeps the suite green, then store it under /verif/twins."""
    d = os.path.abspath(d)
    name = os.path.basename(d)
    patch = os.path.join(d, "patch.diff")
    wt = tempfile.mkdtemp(prefix="verif-twinwt-")
    os.rmdir(wt)
    sh(f"git -C /repo worktree add -q --detach {wt} HEAD")
    try:
        env = dict(os.environ, PYTHONPATH=wt, PYTHONDONTWRITEBYTECODE="1")
        rc, o = sh(f"git apply {patch}", cwd=wt)
        if rc != 0:
            print(f"{name}: patch does not apply: {o[-200:]}")
            return False
        rc, o = sh(f"{PY} -m pytest -q -p no:cacheprovider -x", cwd=wt, env=env)
        tail = o.strip().splitlines()[-1] if o.strip() else ""
        if rc != 0:
            print(f"{name}: suite fails with the change: {tail}")
            return False
    finally:
        sh(f"git -C /repo worktree remove --force {wt}")
        shutil.rmtree(wt, ignore_errors=True)
    dst = os.path.join(TWINS, name)
    os.makedirs(dst, exist_ok=True)
    shutil.copy(patch, os.path.join(dst, "patch.diff"))
    meta = {}
    if os.path.exists(os.path.join(d, "meta.json")):
        with open(os.path.join(d, "meta.json")) as f:
            meta = json.load(f)
    meta["confirmed_by"] = f"scratch worktree of /repo HEAD: patch applies, pytest: {tail}"
    with open(os.path.join(dst, "meta.json"), "w") as f:
        json.dump(meta, f, indent=1)
    print(f"{name}: imported as twin ({tail})")
    return True


def _detect_twin(name):
    return _detect_one(name, TWINS)


def detect_twins(names):
    names = names or sorted(os.listdir(TWINS))
    names = [n for n in names if os.path.exists(os.path.join(TWINS, n, "patch.diff"))]
    out = {}
    with ProcessPoolExecutor(max_workers=16) as ex:
        for name, res in ex.map(_detect_twin, names):
            out[name] = res
    nfa = nund = 0
    for name in names:
        res = out[name]
        if "_error" in res:
            print(f"{name:22s} ERROR {res['_error']}")
            continue
        fires = [p for p, r in res.items() if r["code"] == 1]
        unds = [p for p, r in res.items() if r["code"] == 2]
        status = "FALSE-ALARM" if fires else ("undecided" if unds else "silent")
        nfa += bool(fires)
        nund += bool(unds and not fires)
        print(f"{name:22s} fires={','.join(fires) or '-':14s} und={','.join(unds) or '-':12s} {status}")
        for p in fires + unds:
            for ln in res[p]["viol"] + res[p]["und"]:
                print(f"        {p}: {ln[:220]}")
    print(f"twins: {len(names)} total, {nfa} false alarm(s), {nund} undecided")
    return out


def _detect_one(name, base=None):
    from sa import check, selftest
    from sa.core import report
    d = os.path.join(base or SEEDED, name)
    tmp = tempfile.mkdtemp(prefix="verif-seed-")
    try:
        shutil.copytree("/repo/amaranth_soc", os.path.join(tmp, "amaranth_soc"), ignore=shutil.ignore_patterns("__pycache__"))
        rc, o = sh(f"patch -p1 -s -d {tmp} < {os.path.join(d, 'patch.diff')}")
        if rc != 0:
            return name, {"_error": "patch does not apply to the current tree: " + o[-200:]}
        res = {}
        for p in selftest.available_props():
            rep = check.run_property(p, "quick", tmp)
            code, unlisted, hits, und = report.verdict(rep)
            if code != 0:
                res[p] = {"code": code, "viol": [f"{o_.rule} {o_.site}: {o_.construct[:100]}" for o_ in unlisted][:4],
                          "und": [f"{o_.rule}: {o_.construct[:80]} -- {o_.detail[:100]}" for o_ in und][:4]}
        return name, res
    finally:
        shutil.rmtree(tmp, ignore_errors=True)


def detect(names, write=False):
    names = names or sorted(os.listdir(SEEDED))
    names = [n for n in names if os.path.exists(os.path.join(SEEDED, n, "patch.diff"))]
    out = {}
    with ProcessPoolExecutor(max_workers=16) as ex:
        for name, res in ex.map(_detect_one, names):
            out[name] = res
    for name in names:
        res = out[name]
        meta = {}
        mp = os.path.join(SEEDED, name, "meta.json")
        if os.path.exists(mp):
            with open(mp) as f:
                meta = json.load(f)
        prop = meta.get("property", "?")
        if "_error" in res:
            print(f"{name:12s} target={prop} ERROR {res['_error']}")
            continue
        fires = [p for p, r in res.items() if r["code"] == 1]
        unds = [p for p, r in res.items() if r["code"] == 2]
        status = "DETECTED" if prop in fires else ("detected-by-other" if fires else ("undecided" if unds else "MISSED"))
        print(f"{name:12s} target={prop} fires={','.join(fires) or '-':14s} und={','.join(unds) or '-':8s} {status}")
        for p in fires + unds:
            for ln in res[p]["viol"] + res[p]["und"]:
                print(f"        {p}: {ln[:200]}")
    if write:
        table = {}
        for name in names:
            res = out[name]
            if "_error" in res:
                continue
            mp = os.path.join(SEEDED, name, "meta.json")
            meta = json.load(open(mp)) if os.path.exists(mp) else {}
            table[name] = {"target": meta.get("property", "?"),
                           "fires": sorted(p for p, r in res.items() if r["code"] == 1),
                           "undecided": sorted(p for p, r in res.items() if r["code"] == 2),
                           "rules": sorted({v.split(" ")[0] for p, r in res.items() if r["code"] == 1 for v in r["viol"]})}
        with open(os.path.join(SEEDED, "DETECTION.json"), "w") as f:
            json.dump(table, f, indent=1, sort_keys=True)
    return out


def main():
    if len(sys.argv) < 2:
        print(__doc__)
        return 2
    cmd, args = sys.argv[1], sys.argv[2:]
    if cmd == "verify":
        for d in args:
            print(json.dumps(verify(d), indent=1))
    elif cmd == "import":
        for d in args:
            do_import(d)
    elif cmd == "import-twin":
        for d in args:
            import_twin(d)
    elif cmd == "detect-twins":
        detect_twins(args)
    elif cmd == "detect":
        write = "--write" in args
        detect([a for a in args if a != "--write"], write)
    return 0


if __name__ == "__main__":
    sys.exit(main())
