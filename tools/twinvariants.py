#!/usr/bin/env python3
"""Development tool: do the behaviour-preserving twins stay free of alarms when they are *rewritten* on top?

A sample of the twins (twins/<name>/patch.diff) is applied to a scratch copy of the package, the copy is rewritten by some SAFE rewrites
of sa/variants.py, and all 20 checks are run on it (in process; nothing is executed): no check may report a violation.

    /venv/bin/python tools/twinvariants.py [--sample N] [--seed S] [--variants a,b] [--jobs N]
"""
import argparse
import json
import os
import pathlib
import random
import shutil
import subprocess
import sys
import tempfile
from concurrent.futures import ProcessPoolExecutor

HERE = pathlib.Path(__file__).resolve().parent.parent
sys.path.insert(0, str(HERE))


def run_one(job):
    twin, variant = job
    from sa import check, variants
    from sa.core import report
    tmp = tempfile.mkdtemp(prefix="verif-tv-")
    try:
        shutil.copytree("/repo/amaranth_soc", os.path.join(tmp, "amaranth_soc"), ignore=shutil.ignore_patterns("__pycache__"))
        p = subprocess.run(["patch", "-s", "-p1", "-F3", "-d", tmp, "-i", str(HERE / "twins" / twin / "patch.diff")], capture_output=True, text=True)
        if p.returncode != 0:
            return twin, variant, "patch-failed", [], []
        try:
            for fn in variants.VARIANTS[variant]:
                variants.rewrite(tmp, fn)
        except SyntaxError as e:
            return twin, variant, f"rewrite-failed: {e}", [], []
        fires, und = [], []
        for i in range(1, 21):
            pid = f"C{i:02d}"
            rep = check.run_property(pid, "quick", tmp)
            code, unlisted, hits, undl = report.verdict(rep)
            if code == 1:
                fires.append((pid, sorted({o.rule for o in unlisted}), [f"{o.site}: {o.construct[:80]} -- {o.detail[:160]}" for o in unlisted][:2]))
            elif code == 2:
                und.append(pid)
        return twin, variant, "ok", fires, und
    except Exception as e:                                  # noqa
        return twin, variant, f"error: {type(e).__name__}: {e}", [], []
    finally:
        shutil.rmtree(tmp, ignore_errors=True)


def main():
    ap = argparse.ArgumentParser()
    ap.add_argument("--jobs", type=int, default=12)
    ap.add_argument("--sample", type=int, default=100)
    ap.add_argument("--seed", type=int, default=1)
    ap.add_argument("--variants", default="locals,demorgan,temps")
    ap.add_argument("--twins", default="")
    a = ap.parse_args()
    names = sorted(d.name for d in (HERE / "twins").iterdir() if (d / "patch.diff").exists())
    if a.twins:
        names = [n for n in a.twins.split(",") if n]
    else:
        random.Random(a.seed).shuffle(names)
        names = names[:a.sample]
    vs = [v for v in a.variants.split(",") if v]
    jobs = [(t, v) for t in names for v in vs]
    print(f"{len(names)} twins x {len(vs)} rewrites = {len(jobs)} trees, 20 checks each", flush=True)
    alarms = n_und = bad = 0
    with ProcessPoolExecutor(max_workers=a.jobs) as ex:
        for twin, variant, status, fires, und in ex.map(run_one, jobs, chunksize=2):
            if status != "ok":
                bad += 1
                print(f"  ?      {twin} under `{variant}`: {status}")
                continue
            n_und += bool(und)
            for pid, rules, details in fires:
                alarms += 1
                print(f"  ALARM  {twin} under `{variant}`: {pid} {rules}")
                for d in details:
                    print(f"           {d}")
    print(f"trees with a VIOLATION: {alarms}; trees with an undecided verdict: {n_und}; not runnable: {bad}")


if __name__ == "__main__":
    main()
