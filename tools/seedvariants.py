#!/usr/bin/env python3
"""Development tool: are the seeded defects still reported when the defective tree is *rewritten*?

For every seeded change that its own property's check detects (seeded/DETECTION.json) and every SAFE whole-package rewrite of
sa/variants.py, the patch is applied to a scratch copy of the package, the copy is rewritten, and the property's check is run on it
(in process, nothing is executed or written to the evidence).  A seed that is reported on the plain tree and not on a rewritten one
shows a rule whose answer depends on how the code is spelled.

    /venv/bin/python tools/seedvariants.py [--jobs N] [--variants a,b] [--seeds C01_a,...]
"""
import argparse
import json
import os
import pathlib
import shutil
import subprocess
import sys
import tempfile
from concurrent.futures import ProcessPoolExecutor

HERE = pathlib.Path(__file__).resolve().parent.parent
sys.path.insert(0, str(HERE))


def run_one(job):
    seed, prop, variant = job
    from sa import check, variants
    from sa.core import report
    tmp = tempfile.mkdtemp(prefix="verif-sv-")
    try:
        shutil.copytree("/repo/amaranth_soc", os.path.join(tmp, "amaranth_soc"), ignore=shutil.ignore_patterns("__pycache__"))
        p = subprocess.run(["patch", "-s", "-p1", "-F3", "-d", tmp, "-i", str(HERE / "seeded" / seed / "patch.diff")], capture_output=True, text=True)
        if p.returncode != 0:
            return seed, variant, "patch-failed", []
        try:
            for fn in variants.VARIANTS[variant]:
                variants.rewrite(tmp, fn)
        except SyntaxError as e:
            return seed, variant, f"rewrite-failed: {e}", []
        rep = check.run_property(prop, "quick", tmp)
        code, unlisted, hits, undl = report.verdict(rep)
        return seed, variant, code, sorted({o.rule for o in unlisted})
    except Exception as e:                                  # noqa
        return seed, variant, f"error: {type(e).__name__}: {e}", []
    finally:
        shutil.rmtree(tmp, ignore_errors=True)


def main():
    ap = argparse.ArgumentParser()
    ap.add_argument("--jobs", type=int, default=12)
    ap.add_argument("--variants", default="")
    ap.add_argument("--seeds", default="")
    ap.add_argument("--out", default="/tmp/seedvariants.json")
    a = ap.parse_args()
    from sa import variants
    det = json.load(open(HERE / "seeded" / "DETECTION.json"))
    vs = [v for v in a.variants.split(",") if v] or [v for v in variants.SAFE if v != "unparse"]
    seeds = [s for s in a.seeds.split(",") if s] or sorted(k for k, v in det.items() if v["target"] in v["fires"])
    jobs = [(s, det[s]["target"], v) for s in seeds for v in vs]
    print(f"{len(seeds)} seeds x {len(vs)} rewrites = {len(jobs)} runs", flush=True)
    lost, und, other = [], [], []
    rows = []
    with ProcessPoolExecutor(max_workers=a.jobs) as ex:
        for seed, variant, code, rules in ex.map(run_one, jobs, chunksize=4):
            rows.append((seed, variant, code, rules))
            if code == 1:
                continue
            if code == 0:
                lost.append((seed, variant))
            elif code == 2:
                und.append((seed, variant))
            else:
                other.append((seed, variant, code))
    json.dump(rows, open(a.out, "w"), indent=1)
    print(f"still reported: {len(jobs) - len(lost) - len(und) - len(other)}; undecided on the rewrite: {len(und)}; SILENT on the rewrite: {len(lost)}; "
          f"not runnable: {len(other)}")
    for s, v in lost:
        print(f"  SILENT {s} under `{v}` (rules on the plain tree: {det[s]['rules']})")
    for s, v in und:
        print(f"  UND    {s} under `{v}`")
    for s, v, c in other[:20]:
        print(f"  ?      {s} under `{v}`: {c}")


if __name__ == "__main__":
    main()
