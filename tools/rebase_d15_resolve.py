"""Resolve merge conflicts of patches that predate the D15 repair (store after add_window)."""
import re, sys, glob
name = sys.argv[1]
STORE = re.compile(r"^(\s*)(self\._sub\w*(\[[^\]]+\] = .*|\.append\(.*\)))\n", re.M)

def reorder(text):
    """`<store>\n return X.add_window(...)` -> window first, then store."""
    m = re.search(r"^(?P<ind>\s*)(?P<store>self\._sub\w*(?:\[[^\]\n]+\] = [^\n]*|\.append\([^\n]*\)))\n(?P=ind)return (?P<call>[^\n]*add_window\((?:[^()]|\([^()]*\))*\))\n", text, re.M | re.S)
    if not m:
        return None
    ind = m.group('ind')
    call = m.group('call')
    new = f"{ind}window_range = {call}\n{ind}# The subordinate is only recorded once its window has been accepted.\n{ind}{m.group('store')}\n{ind}return window_range\n"
    return text[:m.start()] + new + text[m.end():]

for p in glob.glob('amaranth_soc/**/*.py', recursive=True):
    s = open(p).read()
    if "<<<<<<<" not in s:
        # patches that re-add the old two lines elsewhere without conflict
        r = reorder(s)
        while r is not None and r != s and name in ("x_wb_4", "y_wb_1", "z_csrbus_8", "z_wb_8"):
            s = r; r = reorder(s)
        open(p, 'w').write(s)
        continue
    while True:
        m = re.search(r"<<<<<<<\n(.*?)=======\n(.*?)>>>>>>>\n", s, re.S)
        if not m:
            break
        ours, theirs = m.group(1), m.group(2)
        if name == "C06_n":
            new = theirs
        elif name == "C06_o":
            new = ours
        elif name == "m_wb_6":
            new = theirs
        elif theirs.strip() == "":
            new = ""                     # moved elsewhere by the patch; that copy is reordered below
        else:
            r = reorder(theirs)
            assert r is not None, (name, theirs)
            new = r
        s = s[:m.start()] + new + s[m.end():]
    if name == "C06_o":
        s = s.replace("window_range = self.bus.memory_map.add_window(sub_bus.memory_map, name=name, addr=addr)",
                      "window_range = self.bus.memory_map.add_window(sub_bus.memory_map, name=name, addr=addr,\n                                                      alignment=alignment)")
    r = reorder(s)
    while r is not None and r != s:
        s = r; r = reorder(s)
    assert "<<<<<<<" not in s
    open(p, 'w').write(s)
