#!/usr/bin/env python3
"""Development tool (not a registered check): a systematic single-edit mutation sweep of /repo/amaranth_soc.

For every expression site of the package a handful of classic mutation operators is applied (comparison / arithmetic / Boolean
operator swaps, constants +-1, `not` removal, argument swaps, In <-> Out, comb <-> sync, statement deletion).  Each mutant is
  1. run against the repository's test suite in a scratch copy (killed mutants are dropped: the tests already settle them),
  2. for the survivors, run through the 20 static checks (sa/check.py --repo <copy>).
The result is a table  survivor -> checks that fire / undecided / silent, which is triaged by hand: a silent survivor is either an
equivalent mutant or a hole in the rules.  Nothing here runs as part of a verdict.

usage: mutsweep.py [--max N] [--seed S] [--jobs J] [--files a.py,b.py] [--out FILE]
"""
import argparse
import ast
import copy
import json
import os
import random
import shutil
import subprocess
import sys
import tempfile
from concurrent.futures import ProcessPoolExecutor

REPO = "/repo"
PKG = "amaranth_soc"
PY = "/venv/bin/python"
VERIF = os.path.dirname(os.path.dirname(os.path.abspath(__file__)))

CMP = {ast.Lt: ast.LtE, ast.LtE: ast.Lt, ast.Gt: ast.GtE, ast.GtE: ast.Gt, ast.Eq: ast.NotEq, ast.NotEq: ast.Eq,
       ast.Is: ast.IsNot, ast.IsNot: ast.Is, ast.In: ast.NotIn, ast.NotIn: ast.In}
BIN = {ast.Add: ast.Sub, ast.Sub: ast.Add, ast.BitAnd: ast.BitOr, ast.BitOr: ast.BitAnd, ast.LShift: ast.RShift, ast.RShift: ast.LShift,
       ast.FloorDiv: ast.Mod, ast.Mod: ast.FloorDiv, ast.Mult: ast.FloorDiv, ast.BitXor: ast.BitOr}


def mutants_of_expr(e):
    """yield (description, mutated copy) for one expression node (the node itself only, not its children)"""
    if isinstance(e, ast.Compare) and len(e.ops) == 1 and type(e.ops[0]) in CMP:
        m = copy.deepcopy(e)
        m.ops = [CMP[type(e.ops[0])]()]
        yield f"cmp {type(e.ops[0]).__name__}->{type(m.ops[0]).__name__}", m
    if isinstance(e, ast.BinOp) and type(e.op) in BIN:
        m = copy.deepcopy(e)
        m.op = BIN[type(e.op)]()
        yield f"bin {type(e.op).__name__}->{type(m.op).__name__}", m
        if isinstance(e.op, (ast.Sub, ast.FloorDiv, ast.Mod, ast.LShift, ast.RShift)):
            m = copy.deepcopy(e)
            m.left, m.right = m.right, m.left
            yield "bin operands swapped", m
    if isinstance(e, ast.BoolOp):
        m = copy.deepcopy(e)
        m.op = ast.Or() if isinstance(e.op, ast.And) else ast.And()
        yield f"bool {type(e.op).__name__}->{type(m.op).__name__}", m
        if len(e.values) >= 2:
            m = copy.deepcopy(e)
            m.values = m.values[:-1]
            yield "bool last operand dropped", m if len(m.values) > 1 else m.values[0]
    if isinstance(e, ast.UnaryOp) and isinstance(e.op, (ast.Not, ast.Invert)):
        yield f"unary {type(e.op).__name__} removed", copy.deepcopy(e.operand)
    if isinstance(e, ast.Constant) and isinstance(e.value, int) and not isinstance(e.value, bool) and -1 <= e.value <= 64:
        yield f"const {e.value}->{e.value + 1}", ast.Constant(value=e.value + 1)
        if e.value > 0:
            yield f"const {e.value}->{e.value - 1}", ast.Constant(value=e.value - 1)
    if isinstance(e, ast.Constant) and isinstance(e.value, bool):
        yield f"const {e.value}->{not e.value}", ast.Constant(value=not e.value)
    if isinstance(e, ast.Name) and isinstance(e.ctx, ast.Load) and e.id in ("In", "Out"):
        yield f"{e.id}->{'Out' if e.id == 'In' else 'In'}", ast.Name(id="Out" if e.id == "In" else "In", ctx=ast.Load())
    if isinstance(e, ast.Attribute) and e.attr in ("comb", "sync") and isinstance(e.value, ast.Attribute) and e.value.attr == "d":
        m = copy.deepcopy(e)
        m.attr = "sync" if e.attr == "comb" else "comb"
        yield f"domain {e.attr}->{m.attr}", m
    if isinstance(e, ast.Call) and len(e.args) == 2 and not e.keywords and not any(isinstance(a, ast.Starred) for a in e.args) and \
            ast.dump(e.args[0]) != ast.dump(e.args[1]):
        m = copy.deepcopy(e)
        m.args = [m.args[1], m.args[0]]
        yield "call args swapped", m
    if isinstance(e, ast.Call) and isinstance(e.func, ast.Name) and e.func.id in ("max", "min"):
        m = copy.deepcopy(e)
        m.func = ast.Name(id="min" if e.func.id == "max" else "max", ctx=ast.Load())
        yield f"{e.func.id}->{m.func.id}", m
    if isinstance(e, ast.Call) and isinstance(e.func, ast.Name) and e.func.id in ("ceil_log2", "exact_log2") and len(e.args) == 1:
        m = copy.deepcopy(e)
        m.args = [ast.BinOp(left=m.args[0], op=ast.Add(), right=ast.Constant(value=1))]
        yield f"{e.func.id}(x)->(x+1)", m
    if isinstance(e, ast.Call) and isinstance(e.func, ast.Name) and e.func.id == "range" and 1 <= len(e.args) <= 2 and not e.keywords:
        m = copy.deepcopy(e)
        m.args[-1] = ast.BinOp(left=m.args[-1], op=ast.Sub(), right=ast.Constant(value=1))
        yield "range upper bound - 1", m
        m = copy.deepcopy(e)
        if len(m.args) == 1:
            m.args = [ast.Constant(value=1), m.args[0]]
        else:
            m.args[0] = ast.BinOp(left=m.args[0], op=ast.Add(), right=ast.Constant(value=1))
        yield "range lower bound + 1", m
    if isinstance(e, ast.Call) and isinstance(e.func, ast.Name) and e.func.id in ("reversed", "sorted") and len(e.args) == 1 and not e.keywords:
        yield f"{e.func.id}() dropped", copy.deepcopy(e.args[0])
    SIB = {"r_stb": "w_stb", "w_stb": "r_stb", "r_data": "w_data", "w_data": "r_data", "start": "stop", "stop": "start", "set": "clr", "clr": "set",
           "readable": "writable", "writable": "readable", "addr_width": "data_width", "data_width": "addr_width", "err": "rty", "rty": "err",
           "cyc": "stb", "stb": "cyc", "dat_r": "dat_w", "dat_w": "dat_r", "enable": "pending", "pending": "enable", "r_en": "w_en", "w_en": "r_en",
           "_resources": "_windows", "_windows": "_resources", "_starts": "_stops", "_stops": "_starts", "granularity": "data_width",
           "o": "oe", "oe": "o", "ack": "stall", "lock": "stb", "clear": "set", "i": "trg", "trg": "i"}
    if isinstance(e, ast.Attribute) and isinstance(e.ctx, ast.Load) and e.attr in SIB:
        m = copy.deepcopy(e)
        m.attr = SIB[e.attr]
        yield f"attr .{e.attr}->.{m.attr}", m
    if isinstance(e, ast.Call) and isinstance(e.func, ast.Attribute) and e.func.attr == "Elif" and isinstance(e.func.value, ast.Name) and e.func.value.id == "m":
        m = copy.deepcopy(e)
        m.func.attr = "If"
        yield "m.Elif->m.If", m
    if isinstance(e, ast.Call) and isinstance(e.func, ast.Attribute) and e.func.attr == "If" and isinstance(e.func.value, ast.Name) and e.func.value.id == "m" \
            and len(e.args) == 1:
        m = copy.deepcopy(e)
        m.args = [ast.UnaryOp(op=ast.Invert(), operand=m.args[0])]
        yield "m.If(c)->m.If(~c)", m
    if isinstance(e, ast.keyword if False else ast.Call) and e.keywords:
        for i_, k_ in enumerate(e.keywords):
            if k_.arg is not None and isinstance(k_.value, ast.Constant) and isinstance(k_.value.value, bool):
                continue                                # covered by the constant operator
            if k_.arg in ("name", "src_loc_at", "path"):
                continue
            m = copy.deepcopy(e)
            del m.keywords[i_]
            yield f"keyword {k_.arg}= dropped", m
    # economies: something that "looked redundant" is removed
    if isinstance(e, ast.BinOp) and isinstance(e.op, (ast.BitAnd, ast.BitOr)):
        yield f"economy: {'&' if isinstance(e.op, ast.BitAnd) else '|'} right operand dropped", copy.deepcopy(e.left)
        yield f"economy: {'&' if isinstance(e.op, ast.BitAnd) else '|'} left operand dropped", copy.deepcopy(e.right)
    if isinstance(e, ast.Call) and len(e.args) == 1 and not e.keywords and not isinstance(e.args[0], (ast.GeneratorExp, ast.Starred)) and (
            (isinstance(e.func, ast.Name) and e.func.id in ("tuple", "list", "frozenset", "set", "dict", "int", "bool", "Feature", "flipped")) or
            (isinstance(e.func, ast.Attribute) and e.func.attr in ("Name", "cast", "Access", "Trigger"))):
        yield f"economy: {ast.unparse(e.func)}() unwrapped", copy.deepcopy(e.args[0])
    if isinstance(e, ast.Call) and isinstance(e.func, ast.Name) and e.func.id == "Mux" and len(e.args) == 3:
        yield "economy: Mux -> its second operand", copy.deepcopy(e.args[1])
    if isinstance(e, ast.Call) and isinstance(e.func, ast.Attribute) and e.func.attr in ("replicate", "any", "bool", "as_unsigned") and len(e.args) <= 1:
        yield f"economy: .{e.func.attr}() dropped", copy.deepcopy(e.func.value)
    if isinstance(e, ast.Call) and isinstance(e.func, ast.Name) and e.func.id in ("max", "min") and len(e.args) == 2 and not e.keywords:
        yield f"economy: {e.func.id}(a, b) -> b", copy.deepcopy(e.args[1])
        yield f"economy: {e.func.id}(a, b) -> a", copy.deepcopy(e.args[0])
    if isinstance(e, ast.Subscript) and isinstance(e.slice, ast.Slice) and e.slice.lower is None and e.slice.upper is not None:
        m = copy.deepcopy(e)
        m.slice = ast.Slice(lower=ast.Constant(value=1), upper=e.slice.upper, step=e.slice.step)
        yield "slice [:n]->[1:n]", m


def splice(src_lines, node, text):
    """replace the source span of node by text"""
    l0, c0, l1, c1 = node.lineno - 1, node.col_offset, node.end_lineno - 1, node.end_col_offset
    lines = list(src_lines)
    # col offsets are utf8 byte offsets; the package is ASCII except possibly comments -- handle by encoding
    first = lines[l0].encode()
    last = lines[l1].encode()
    new = first[:c0].decode() + text + last[c1:].decode()
    lines[l0:l1 + 1] = [new]
    return lines


def generate(files):
    out = []
    for rel in files:
        path = os.path.join(REPO, rel)
        src = open(path).read()
        tree = ast.parse(src)
        lines = src.split("\n")
        docstrings = set()
        for n in ast.walk(tree):
            if isinstance(n, (ast.FunctionDef, ast.ClassDef, ast.Module)) and n.body and isinstance(n.body[0], ast.Expr) and \
                    isinstance(n.body[0].value, ast.Constant) and isinstance(n.body[0].value.value, str):
                docstrings.add(id(n.body[0].value))
        # function context for the report
        owner = {}
        for f in ast.walk(tree):
            if isinstance(f, (ast.FunctionDef, ast.AsyncFunctionDef)):
                for n in ast.walk(f):
                    owner.setdefault(id(n), f.name)
        in_raise_msg = set()
        for r in ast.walk(tree):
            if isinstance(r, ast.Raise) and r.exc is not None:
                for n in ast.walk(r.exc):
                    in_raise_msg.add(id(n))
            if isinstance(r, ast.JoinedStr):
                for n in ast.walk(r):
                    in_raise_msg.add(id(n))
        for n in ast.walk(tree):
            if not isinstance(n, ast.expr) or id(n) in docstrings or id(n) in in_raise_msg or id(n) not in owner:
                continue
            for desc, m in mutants_of_expr(n):
                try:
                    text = ast.unparse(ast.fix_missing_locations(m))
                    if isinstance(m, (ast.BinOp, ast.BoolOp, ast.Compare, ast.UnaryOp, ast.IfExp)):
                        text = "(" + text + ")"
                    new_lines = splice(lines, n, text)
                    new_src = "\n".join(new_lines)
                    ast.parse(new_src)
                except Exception:
                    continue
                out.append({"file": rel, "line": n.lineno, "func": owner[id(n)], "op": desc,
                            "orig": ast.get_source_segment(src, n)[:60] if ast.get_source_segment(src, n) else "", "new": text[:60], "src": new_src})
        # two adjacent statements of one block exchanged (assignment order decides priority in the DSL)
        for f in ast.walk(tree):
            if not isinstance(f, (ast.FunctionDef, ast.AsyncFunctionDef)):
                continue
            for blk_owner in ast.walk(f):
                for field in ("body", "orelse"):
                    blk = getattr(blk_owner, field, None)
                    if not isinstance(blk, list) or len(blk) < 2 or not isinstance(blk[0], ast.stmt):
                        continue
                    for a_, b_ in zip(blk, blk[1:]):
                        if not (isinstance(a_, (ast.With, ast.AugAssign, ast.If, ast.For)) and isinstance(b_, (ast.With, ast.AugAssign, ast.If, ast.For))):
                            continue
                        if isinstance(a_, ast.Expr) or isinstance(b_, ast.Expr):
                            continue
                        sa_ = lines[a_.lineno - 1:a_.end_lineno]
                        sb_ = lines[b_.lineno - 1:b_.end_lineno]
                        gap = lines[a_.end_lineno:b_.lineno - 1]
                        new_lines = lines[:a_.lineno - 1] + sb_ + gap + sa_ + lines[b_.end_lineno:]
                        new_src = "\n".join(new_lines)
                        try:
                            ast.parse(new_src)
                        except Exception:
                            continue
                        out.append({"file": rel, "line": a_.lineno, "func": f.name, "op": "adjacent statements swapped",
                                    "orig": lines[a_.lineno - 1].strip()[:60], "new": lines[b_.lineno - 1].strip()[:60], "src": new_src})
        # Python `if` tests negated / made unconditional
        for f in ast.walk(tree):
            if not isinstance(f, (ast.FunctionDef, ast.AsyncFunctionDef)):
                continue
            for st in ast.walk(f):
                if isinstance(st, ast.If) and not any(isinstance(x, ast.Raise) for x in st.body[:1]):
                    seg = ast.get_source_segment(src, st.test)
                    if seg is None:
                        continue
                    for desc, text in (("if test negated", f"not ({seg})"), ("if test always true", "True")):
                        try:
                            new_src = "\n".join(splice(lines, st.test, text))
                            ast.parse(new_src)
                        except Exception:
                            continue
                        out.append({"file": rel, "line": st.lineno, "func": f.name, "op": desc, "orig": seg[:60], "new": text[:60], "src": new_src})
        # statement deletion: m.d.<dom> += ..., raise, x.append(...), plain calls
        for f in ast.walk(tree):
            if not isinstance(f, (ast.FunctionDef, ast.AsyncFunctionDef)):
                continue
            for st in ast.walk(f):
                deletable = (isinstance(st, ast.AugAssign) and isinstance(st.target, ast.Attribute) and isinstance(st.target.value, ast.Attribute) and
                             st.target.value.attr == "d") or \
                            (isinstance(st, ast.Expr) and isinstance(st.value, ast.Call) and not (isinstance(st.value.func, ast.Attribute) and
                                                                                                 st.value.func.attr == "__init__")) or \
                            isinstance(st, ast.Raise)
                if not deletable or not hasattr(st, "end_lineno"):
                    continue
                indent = lines[st.lineno - 1][:st.col_offset]
                new_lines = lines[:st.lineno - 1] + [indent + "pass"] + lines[st.end_lineno:]
                new_src = "\n".join(new_lines)
                try:
                    ast.parse(new_src)
                except Exception:
                    continue
                out.append({"file": rel, "line": st.lineno, "func": f.name, "op": "statement deleted",
                            "orig": lines[st.lineno - 1].strip()[:60], "new": "pass", "src": new_src})
    return out


def run_one(job):
    k, mut, do_checks = job
    tmp = tempfile.mkdtemp(prefix="verif-mut-")
    try:
        shutil.copytree(os.path.join(REPO, PKG), os.path.join(tmp, PKG), ignore=shutil.ignore_patterns("__pycache__"))
        shutil.copytree(os.path.join(REPO, "tests"), os.path.join(tmp, "tests"), ignore=shutil.ignore_patterns("__pycache__"))
        with open(os.path.join(tmp, mut["file"]), "w") as f:
            f.write(mut["src"])
        env = dict(os.environ, PYTHONPATH=tmp, PYTHONDONTWRITEBYTECODE="1")
        p = subprocess.run([PY, "-m", "pytest", "-q", "-x", "-p", "no:cacheprovider", "--timeout=120", "tests"], cwd=tmp, env=env,
                           capture_output=True, text=True, timeout=600)
        res = {"k": k, "killed": p.returncode != 0}
        if p.returncode != 0 or not do_checks:
            return res
        # in-process, like sa/seedtool.py: nothing is written to /verif/evidence or /verif/findings
        sys.path.insert(0, VERIF)
        from sa import check
        from sa.core import report
        fires, und, rules = [], [], []
        for i in range(1, 21):
            pid = f"C{i:02d}"
            rep = check.run_property(pid, "quick", tmp)
            code, unlisted, hits, undl = report.verdict(rep)
            if code == 1:
                fires.append(pid)
                rules += [o_.rule for o_ in unlisted][:3]
            elif code != 0:
                und.append(pid)
        res["fires"], res["und"], res["rules"] = fires, und, sorted(set(rules))
        return res
    except Exception as e:                                  # noqa
        return {"k": k, "killed": True, "error": str(e)[:200]}
    finally:
        shutil.rmtree(tmp, ignore_errors=True)


def main():
    ap = argparse.ArgumentParser()
    ap.add_argument("--max", type=int, default=400)
    ap.add_argument("--seed", type=int, default=1)
    ap.add_argument("--jobs", type=int, default=16)
    ap.add_argument("--files", default="")
    ap.add_argument("--out", default="/tmp/mutsweep.json")
    ap.add_argument("--recheck", default="")
    ap.add_argument("--ops", default="", help="comma-separated prefixes of operator descriptions to keep")
    ap.add_argument("--base", default="", help="mutate this tree (package + tests) instead of /repo, e.g. one kept by tools/machinetwins.py --keep")
    args = ap.parse_args()
    if args.base:
        global REPO
        REPO = args.base
    files = [f for f in args.files.split(",") if f] or sorted(
        os.path.relpath(os.path.join(d, f), REPO) for d, _, fs in os.walk(os.path.join(REPO, PKG)) for f in fs if f.endswith(".py") and f != "__init__.py")
    muts = generate(files)
    if args.ops:
        pref = tuple(args.ops.split(","))
        muts = [m for m in muts if m["op"].startswith(pref)]
    random.Random(args.seed).shuffle(muts)
    muts = muts[:args.max]
    if args.recheck:
        # only the survivors of an earlier run (same seed / max): the test suite is not run again
        prev = json.load(open(args.recheck))
        keep = {(r["file"], r["line"], r["op"], r["orig"], r["new"]) for r in prev if not r["killed"]}
        muts = [m for m in muts if (m["file"], m["line"], m["op"], m["orig"], m["new"]) in keep]
    print(f"{len(muts)} mutants", flush=True)
    results = {}
    with ProcessPoolExecutor(max_workers=args.jobs) as ex:
        for r in ex.map(run_one, [(k, m, True) for k, m in enumerate(muts)]):
            results[r["k"]] = r
    rows = []
    for k, m in enumerate(muts):
        r = results[k]
        rows.append({kk: vv for kk, vv in m.items() if kk != "src"} | r)
    json.dump(rows, open(args.out, "w"), indent=1)
    surv = [r for r in rows if not r["killed"]]
    print(f"killed by the tests: {len(rows) - len(surv)}; survivors: {len(surv)}")
    print(f"  flagged by a check: {sum(1 for r in surv if r.get('fires'))}; undecided only: {sum(1 for r in surv if not r.get('fires') and r.get('und'))}; "
          f"silent: {sum(1 for r in surv if not r.get('fires') and not r.get('und'))}")
    for r in surv:
        if not r.get("fires"):
            print(f"  {'UND ' if r.get('und') else 'SILENT'} {r['file']}:{r['line']} {r['func']}: {r['op']}: `{r['orig']}` -> `{r['new']}` {r.get('und') or ''}")


if __name__ == "__main__":
    main()
