#!/bin/sh
# usage: runseed.sh <seed> <prop> [width]
t=$(mktemp -d /tmp/tw.XXXX); cp -r /repo/amaranth_soc $t/; patch -s -p1 -F3 -d $t -i /verif/seeded/$1/patch.diff; cd /verif; /venv/bin/python sa/check.py $2 --repo $t --no-selftest 2>&1 | grep -A3 -E "^VIOLATION|^ANALYSIS" | cut -c1-${3:-900}; rm -rf $t
