#!/usr/bin/env python3
"""Machine-made behaviour-preserving variants of the whole package, as a false-alarm test (a development tool, not a registered
check: it runs the test suite of the variant to make sure the transformation really preserved behaviour).

    /venv/bin/python tools/machinetwins.py [--keep] [--only NAME]

Every transformation is applied to *every* site of amaranth_soc where it is applicable, the 290 tests are run on the result, and
then the 20 checks are run on it with --repo: every check must exit 0 (known findings are printed as on the real tree).

  unparse     ast.unparse round trip: comments gone, layout, quotes and parentheses normalised
  locals      every function-local name gets a suffix
  order       methods of every class sorted by name; `if c: A else: B` -> `if not c: B else: A`; `m.d.x += [a, b]` one per line
  demorgan    `if a or b` -> `if not (not a and not b)`; `for a, b in X:` -> `for item in X: a, b = item`
  hoist       `self.attr` read twice or more in a method -> a local bound at the top of the method
  reflect     `a < b` -> `b > a`; `a & b` -> `b & a`; `x if c else y` -> `y if not c else x`; raise E(f"...") -> msg = f"..."; raise E(msg)
  dslnest     `with m.If(a & b):` -> `with m.If(a): with m.If(b):`; parameters and returns annotated; docstrings dropped
  temps       assigned values and refusal tests through a temporary (`value_k = a & b`, `refuse_k = <test>`)
  augassign   `acc |= x` -> `acc = acc | x`; `for i, x in enumerate(S)` -> `for i in range(len(S)): x = S[i]`
  hworder     runs of assignments to different signals reversed; sibling Case arms reversed
  all         locals, order, demorgan, hoist, reflect, dslnest, in that order
"""
import argparse
import ast
import collections
import os
import pathlib
import shutil
import subprocess
import sys
import tempfile

HERE = pathlib.Path(__file__).resolve().parent.parent
REPO = pathlib.Path("/repo")


sys.path.insert(0, str(HERE))
from sa.variants import VARIANTS, rewrite          # noqa: E402


def main():
    ap = argparse.ArgumentParser()
    ap.add_argument("--keep", action="store_true")
    ap.add_argument("--only")
    a = ap.parse_args()
    bad = 0
    for name, fns in VARIANTS.items():
        if a.only and a.only != name:
            continue
        d = pathlib.Path(tempfile.mkdtemp(prefix=f"mt-{name}-"))
        root = d / "repo"
        shutil.copytree(REPO, root, ignore=shutil.ignore_patterns(".git", "__pycache__", ".pytest_cache"))
        for fn in fns:
            rewrite(root, fn)
        t = subprocess.run(["/venv/bin/python", "-m", "pytest", "-q", "-p", "no:cacheprovider", "-x"], cwd=root, capture_output=True, text=True)
        tests = t.stdout.strip().splitlines()[-1] if t.stdout.strip() else t.stderr[-200:]
        line = [f"{name:9s} tests: {tests[:40]:40s}"]
        results = []
        for i in range(1, 21):
            prop = f"C{i:02d}"
            r = subprocess.run(["/venv/bin/python", "sa/check.py", prop, "--repo", str(root), "--no-selftest"], cwd=HERE, capture_output=True, text=True)
            if r.returncode != 0:
                first = next((ln for ln in r.stdout.splitlines() if ln.startswith("  C")), "")
                results.append(f"    {prop} exit={r.returncode} {first.strip()[:200]}")
        if " passed" not in tests or "failed" in tests:
            results.append("    the transformation did not preserve behaviour (tests fail): not a twin")
        print(line[0] + ("all 20 checks exit 0" if not results else f"{len(results)} problem(s)"))
        for r in results:
            print(r)
        bad += len(results)
        if not a.keep:
            shutil.rmtree(d, ignore_errors=True)
        else:
            print("    kept:", root)
    sys.exit(1 if bad else 0)


if __name__ == "__main__":
    main()
