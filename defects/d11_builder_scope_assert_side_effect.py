"""D11 (C17): csr.Builder.Cluster() / Index() close their scope inside an `assert` statement:

        finally:
            assert self._scope_stack.pop() == name

`python -O` (PYTHONOPTIMIZE) removes assert statements, and with them the pop: the scope is never left, and every register
added after the `with` block is named as if it were still inside it.

Run: cd /repo && /venv/bin/python -O /verif/defects/d11_builder_scope_assert_side_effect.py   (prints ok on the repaired tree; the
defect only shows under -O, without it the script prints ok on both trees)."""
import sys
from amaranth_soc import csr
from amaranth_soc.csr import action, Field


class R(csr.Register, access="rw"):
    f: Field(action.RW, 8)


b = csr.Builder(addr_width=8, data_width=8)
with b.Cluster("bank"):
    with b.Index(0):
        b.add("ctrl", R())
b.add("status", R())
names = [tuple(name) for _, name, _ in b.as_memory_map().resources()]
if names != [("bank", 0, "ctrl"), ("status",)]:
    print(f"optimize={sys.flags.optimize}: registers are named {names}; expected [('bank', 0, 'ctrl'), ('status',)]")
    sys.exit(1)
print("ok")
