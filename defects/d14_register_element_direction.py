"""D14 (C19; known finding, not repaired): csr.Register declares its `element` port as Out(Element.Signature(...)).

Element.Signature is written from the side of the bus primitive (r_data: In, r_stb / w_data / w_stb: Out), and the register is
the *other* side: Register.elaborate() drives element.r_data and reads the strobes and the write data.  With the port declared
Out (not flipped), r_data is an input of the component that the component itself drives: converting a readable register on its
own fails with an internal DriverConflict.  (Inside a csr.Bridge / csr.Multiplexer nothing checks directions, so it works there.)

Not repaired: the convention is pinned three times -- Multiplexer._check_memory_map demands `.flow == Out`, the unit tests build
their registers with Out(...) and assert that In(...) is refused (tests/test_csr_bus.py) -- so no repair passes the unedited suite.

    /venv/bin/python defects/d14_register_element_direction.py         # exit 1 on the current tree
"""
import sys
sys.path.insert(0, "/repo")
from amaranth.back import rtlil
from amaranth_soc import csr
from amaranth_soc.csr import action, Field


class R(csr.Register, access="rw"):
    a: Field(action.RW, 8)


try:
    rtlil.convert(R())
except Exception as e:          # amaranth.hdl.DriverConflict
    print(f"DEFECT: {type(e).__name__}: {e}")
    sys.exit(1)
print("ok")
