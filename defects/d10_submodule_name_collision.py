"""D10 (C19): an accepted register / register bridge fails to elaborate with an internal NameError.

Register.elaborate() and Bridge.elaborate() name the field / register submodules "__".join(str(part) for part in path).
That encoding is not injective: ("a", "b") and ("a__b",) -- or ("x", 0, "r") and ("x__0__r",), or a register called "mux" next to
the bridge's own multiplexer -- give the same name, and amaranth's Module refuses a second submodule of that name.  Both layouts
are accepted by the constructors (the names are distinct and prefix-free).

Run: cd /repo && /venv/bin/python /verif/defects/d10_submodule_name_collision.py   (prints ok on the repaired tree)"""
import warnings
warnings.simplefilter("ignore")
from amaranth.hdl import Fragment
from amaranth_soc import csr
from amaranth_soc.csr import action, Field


class R(csr.Register, access="rw"):
    f: Field(action.RW, 8)


failures = []


def attempt(what, build):
    try:
        Fragment.get(build(), None)
    except NameError as e:
        failures.append(f"{what}: NameError: {e}")


attempt("Register({'a': {'b': F}, 'a__b': F})",
        lambda: csr.Register({"a": {"b": Field(action.RW, 1)}, "a__b": Field(action.RW, 1)}, access="rw"))


def bridge(adds):
    b = csr.Builder(addr_width=4, data_width=8)
    adds(b)
    return csr.Bridge(b.as_memory_map())


def nested(b):
    with b.Cluster("a"):
        b.add("b", R())
    b.add("a__b", R())


def indexed(b):
    with b.Cluster("x"):
        with b.Index(0):
            b.add("r", R())
    b.add("x__0__r", R())


attempt("Bridge with registers ('a', 'b') and ('a__b',)", lambda: bridge(nested))
attempt("Bridge with registers ('x', 0, 'r') and ('x__0__r',)", lambda: bridge(indexed))
attempt("Bridge with a register named 'mux'", lambda: bridge(lambda b: b.add("mux", R())))

for f in failures:
    print(f)
assert not failures, f"{len(failures)} accepted layout(s) do not elaborate"
print("ok")
