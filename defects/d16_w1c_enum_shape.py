"""D16 (C12 / C19): action.RW1C and action.RW1S could not be elaborated with an enumeration (or data layout) shape.

`shape` is documented as a shape-like object, and R / W / RW accept `amaranth.lib.enum` classes.  RW1C / RW1S created their
storage and ports from the same shape -- for an enum or a layout these signals are *views* -- and then iterated and indexed them
bit by bit: `TypeError: 'FlagView' object is not iterable` from elaborate(), an internal error for an accepted parameter (and a
flag register is the textbook use of write-one-to-clear).

    /venv/bin/python defects/d16_w1c_enum_shape.py        # exit 1 before the repair, exit 0 after
"""
import sys
sys.path.insert(0, "/repo")
from amaranth import *
from amaranth.hdl import Fragment
from amaranth.lib import enum
from amaranth.sim import Simulator
from amaranth_soc.csr import action


class Irq(enum.Flag, shape=unsigned(3)):
    RX = 1
    TX = 2
    ERR = 4


ok = True
for cls in (action.RW1C, action.RW1S):
    try:
        Fragment.get(cls(Irq), None)
    except Exception as e:
        print(f"{cls.__name__}(Irq): {type(e).__name__}: {e}")
        ok = False
if ok:
    dut = action.RW1C(Irq)
    seen = []

    async def tb(ctx):
        ctx.set(dut.set, Irq.RX | Irq.ERR)
        await ctx.tick()
        ctx.set(dut.set, Irq(0))
        seen.append(ctx.get(dut.data))
        ctx.set(dut.port.w_stb, 1)
        ctx.set(dut.port.w_data, Irq.RX)
        await ctx.tick()
        ctx.set(dut.port.w_stb, 0)
        seen.append(ctx.get(dut.data))
    sim = Simulator(dut)
    sim.add_clock(1e-6)
    sim.add_testbench(tb)
    sim.run()
    print("pending after set RX|ERR:", seen[0], " after writing one to RX:", seen[1])
    ok = seen == [Irq.RX | Irq.ERR, Irq.ERR]
print("ok" if ok else "DEFECT: a write-one-to-clear / write-one-to-set field of enumeration shape cannot be built")
sys.exit(0 if ok else 1)
