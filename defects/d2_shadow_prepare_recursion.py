"""D2 (C19): Multiplexer._Shadow.prepare doubles the shadow size and recurses without bound; an unaligned layout
with a sharing limit that can never be met ends in RecursionError instead of a descriptive refusal."""
from amaranth.hdl import Fragment
from amaranth_soc import csr
from amaranth_soc.csr import action
from amaranth_soc.memory import MemoryMap

mm = MemoryMap(addr_width=4, data_width=8)
mm.add_resource(csr.Register(csr.Field(action.RW, 8), access="rw"), name=("a",), addr=2, size=1)
mm.add_resource(csr.Register(csr.Field(action.RW, 16), access="rw"), name=("b",), addr=3, size=2)
try:
    dut = csr.Multiplexer(mm, shadow_overlaps=0)
    Fragment.get(dut, platform=None)
except ValueError as e:
    print("ok (refused):", str(e)[:60])
else:
    print("ok (elaborated)")
