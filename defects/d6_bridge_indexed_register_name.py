"""D6 (C19): csr.Bridge.elaborate names register submodules with "__".join(reg_name); registers added inside
Builder.Index() have integers in their names, so elaboration fails with TypeError."""
from amaranth.hdl import Fragment
from amaranth_soc import csr
from amaranth_soc.csr import action

regs = csr.Builder(addr_width=4, data_width=8)
with regs.Cluster("bank"):
    with regs.Index(0):
        regs.add("r", csr.Register(csr.Field(action.RW, 8), access="rw"))
dut = csr.Bridge(regs.as_memory_map())
Fragment.get(dut, platform=None)
print("ok")
