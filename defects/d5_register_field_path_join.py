"""D5 (C19/C11): csr.Register builds its access-mismatch message with '__'.join(field_path); a field inside a list has an
integer in its path, so the descriptive ValueError is replaced by a TypeError from str.join."""
from amaranth_soc import csr
from amaranth_soc.csr import action

try:
    csr.Register({"a": [csr.Field(action.R, 1)]}, access="w")
except ValueError as e:
    print("ok:", str(e)[:70])
