"""D17 (C19): csr.Multiplexer accepted any `shadow_overlaps` and failed with a bare AssertionError at elaboration.

The constructor stored the parameter unchecked; the only statement about its legal values was an `assert` in the private
_Shadow.__init__, reached from elaborate(): Multiplexer(memory_map, shadow_overlaps=-1) (or "2", 1.5) was built without complaint
and then died with `AssertionError` -- an internal error instead of a descriptive refusal, and no check at all under python -O.

    /venv/bin/python defects/d17_shadow_overlaps_unchecked.py       # exit 1 before the repair, exit 0 after
"""
import sys
sys.path.insert(0, "/repo")
from amaranth.hdl import Fragment
from amaranth_soc import csr
from amaranth_soc.csr import action, Field
from amaranth_soc.memory import MemoryMap


class R(csr.Register, access="rw"):
    a: Field(action.RW, 8)


ok = True
for bad in (-1, "2", 1.5):
    mm = MemoryMap(addr_width=4, data_width=8)
    mm.add_resource(R(), name=("r",), size=1)
    try:
        mux = csr.Multiplexer(mm, shadow_overlaps=bad)
    except (TypeError, ValueError) as e:
        print(f"shadow_overlaps={bad!r}: refused at construction: {e}")
        continue
    try:
        Fragment.get(mux, None)
        print(f"shadow_overlaps={bad!r}: accepted and elaborated?!")
    except AssertionError as e:
        print(f"shadow_overlaps={bad!r}: accepted by the constructor, then AssertionError{e.args} at elaboration")
    ok = False
print("ok" if ok else "DEFECT: an illegal shadow_overlaps is not refused")
sys.exit(0 if ok else 1)
