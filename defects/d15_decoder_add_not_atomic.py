"""D15 (C06 / C07): csr.Decoder.add() and wishbone.Decoder.add() registered the subordinate bus *before* MemoryMap.add_window()
could refuse it.

`self._subs[sub_bus.memory_map] = sub_bus` ran first; `add_window()` then raised (window already added, out of bounds, name
conflict, frozen map ...).  `_subs` is keyed by the memory map, so a refused add() of a second interface that carries the memory map
of an accepted subordinate *replaced* that subordinate: the decoder then drives the refused interface, and the accepted one gets
no strobe any more, although the memory map still lists its window.

    /venv/bin/python defects/d15_decoder_add_not_atomic.py       # exit 1 before the repair, exit 0 after
"""
import sys
sys.path.insert(0, "/repo")
from amaranth.sim import Simulator
from amaranth_soc import csr
from amaranth_soc.memory import MemoryMap

ok = True
dec = csr.Decoder(addr_width=8, data_width=8)
s1 = csr.Interface(addr_width=4, data_width=8, path=("s1",))
s1.memory_map = MemoryMap(addr_width=4, data_width=8)
dec.add(s1, name="s1")
intruder = csr.Interface(addr_width=4, data_width=8, path=("intruder",))
intruder.memory_map = s1.memory_map
try:
    dec.add(intruder, name="other")
    print("the second add() was accepted?!")
    ok = False
except ValueError as e:
    print("second add() refused:", e)

seen = {}


async def tb(ctx):
    ctx.set(dec.bus.addr, 0x3)
    ctx.set(dec.bus.r_stb, 1)
    seen["s1"] = ctx.get(s1.r_stb)
    seen["intruder"] = ctx.get(intruder.r_stb)

sim = Simulator(dec)
sim.add_testbench(tb)
sim.run()
print("read strobe at address 3 reaches: s1 =", seen["s1"], " refused interface =", seen["intruder"])
ok = ok and seen["s1"] == 1 and seen["intruder"] == 0
print("ok" if ok else "DEFECT: a refused add() rewired the decoder")
sys.exit(0 if ok else 1)
