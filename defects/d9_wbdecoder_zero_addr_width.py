"""D9 (C19): wishbone.Decoder(addr_width=0, data_width == granularity) is accepted (wishbone.Signature takes any non-negative
address width), creates a 1-bit memory map (MemoryMap needs a positive width, so the constructor clamps with max(1, ...)), accepts a
matching subordinate in add() -- and then fails in elaborate() with an internal SyntaxError, because the window pattern is as
wide as the clamped map (1 character) while the decoded address port is 0 bits wide.  An accepted component that neither
elaborates nor is refused with a descriptive ValueError / TypeError.  Fails (exit 1) on the current tree."""
import sys
import warnings
from amaranth.back import rtlil
from amaranth_soc import wishbone
from amaranth_soc.memory import MemoryMap

warnings.simplefilter("ignore")
dec = wishbone.Decoder(addr_width=0, data_width=8, granularity=8)
sub = wishbone.Interface(addr_width=0, data_width=8, granularity=8, path=("sub",))
sub.memory_map = MemoryMap(addr_width=1, data_width=8)
assert dec.add(sub) == (0, 2, 1)              # accepted
try:
    rtlil.convert(dec)
except (ValueError, TypeError) as e:          # a descriptive refusal would be fine
    print("refused:", e)
except Exception as e:
    print(f"FAIL: elaboration dies with {type(e).__name__}: {e}")
    sys.exit(1)
print("ok: the zero-address-width decoder elaborates")
