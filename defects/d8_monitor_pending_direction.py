"""D8 (C19, C20): event.Monitor declares its `pending` member as In(...) although the documentation calls it an output and
elaborate() drives it.  Used as a sub-module this goes unnoticed; as the top-level design (or whenever its ports are taken
from its signature) the conversion fails with an internal DriverConflict: an accepted component that does not elaborate to
hardware.  Fails before the fix, passes after."""
from amaranth.back import rtlil
from amaranth.lib.wiring import Out
from amaranth_soc import event

em = event.EventMap()
em.add(event.Source(trigger="rise", path=("s",)))
mon = event.Monitor(em)
assert mon.signature.members["pending"].flow == Out, "Monitor.pending is documented as an output but declared In"
rtlil.convert(mon)                      # DriverConflict on the defective tree
print("ok: event.Monitor converts as a top-level design and `pending` is an output")
