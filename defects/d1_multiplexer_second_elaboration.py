"""D1 (C19): csr.Multiplexer keeps its shadow registers from __init__ and mutates them in elaborate():
the second elaboration of a Multiplexer / csr.Bridge / gpio.Peripheral / csr.EventMonitor fails."""
from amaranth.hdl import Fragment
from amaranth_soc import csr
from amaranth_soc.csr import action

regs = csr.Builder(addr_width=4, data_width=8)
regs.add("a", csr.Register(csr.Field(action.RW, 8), access="rw"))
dut = csr.Bridge(regs.as_memory_map())
Fragment.get(dut, platform=None)
Fragment.get(dut, platform=None)       # AttributeError: 'frozenset' object has no attribute 'add' on the defective tree
print("ok")
