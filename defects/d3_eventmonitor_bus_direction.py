"""D3 (C20, C14): csr.EventMonitor.bus is declared In(<already flipped signature>), i.e. it looks like an initiator.
Connecting a standard CSR initiator interface to it fails. Fails before the fix, passes after."""
from amaranth import Module
from amaranth.lib.wiring import connect, flipped
from amaranth_soc import csr, event
from amaranth_soc.csr.event import EventMonitor

em = event.EventMap()
em.add(event.Source())
mon = EventMonitor(em, data_width=8)
initiator = csr.Signature(addr_width=mon.bus.addr_width, data_width=8).create()
m = Module()
connect(m, initiator, mon.bus)      # raises ConnectionError on the defective tree
print("ok: initiator connected to EventMonitor.bus")
