"""D12 (C20): gpio.PinSignature had no value-based __eq__.

wiring.Signature.__eq__ compares two instances of a *derived* signature class by identity.  Every other signature class of
amaranth-soc overrides __eq__; PinSignature did not, so two pin signatures -- which have no parameters at all -- were unequal,
and with them the signatures of two identical GPIO peripherals.

    /venv/bin/python defects/d12_pinsignature_identity_equality.py         # exit 1 before bff6b63, exit 0 after
"""
import sys
sys.path.insert(0, "/repo")
from amaranth_soc import gpio

a, b = gpio.PinSignature(), gpio.PinSignature()
p = gpio.Peripheral(pin_count=2, addr_width=4, data_width=8)
q = gpio.Peripheral(pin_count=2, addr_width=4, data_width=8)
ok = (a == b) and (a.create().signature == b) and (p.signature == q.signature) and (p.signature.members["pins"] == q.signature.members["pins"])
print("PinSignature() == PinSignature():", a == b)
print("identical peripherals have equal signatures:", p.signature == q.signature)
print("ok" if ok else "DEFECT: pin signatures built from the same (empty) parameter tuple are unequal")
sys.exit(0 if ok else 1)
