"""D4 (C19): WishboneSRAM requests its memory ports inside elaborate(); the second elaboration raises
amaranth's AlreadyElaborated."""
from amaranth.hdl import Fragment
from amaranth_soc.wishbone.sram import WishboneSRAM

dut = WishboneSRAM(size=16, data_width=8)
Fragment.get(dut, platform=None)
Fragment.get(dut, platform=None)
print("ok")
