"""D7 (C07, outside the property's stated domain; known finding, not repaired): wishbone.Decoder with a dense
window onto a subordinate of finer granularity scales the address by the granularity ratio.
Decoder 32/32, subordinate 32/8 with 4 words: sub.adr stays 0 for every word address of the window."""
from amaranth.sim import Simulator
from amaranth_soc import wishbone
from amaranth_soc.memory import MemoryMap

dut = wishbone.Decoder(addr_width=4, data_width=32, granularity=32)
sub = wishbone.Interface(addr_width=2, data_width=32, granularity=8)
sub.memory_map = MemoryMap(addr_width=4, data_width=8, alignment=2)
dut.add(sub)
seen = []

async def tb(ctx):
    ctx.set(dut.bus.cyc, 1)
    for a in range(4):
        ctx.set(dut.bus.adr, a)
        seen.append((a, ctx.get(sub.cyc), ctx.get(sub.adr)))

sim = Simulator(dut)
sim.add_testbench(tb)
sim.run()
print(seen)
assert [s[2] for s in seen] == [0, 1, 2, 3], f"subordinate word address should follow the decoder word address: {seen}"
print("ok")
