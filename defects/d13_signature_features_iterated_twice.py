"""D13 (C20): wishbone.Signature iterated its `features` argument twice.

The constructor first validated the features in a `for` loop and then built the stored frozenset from a second traversal.
`features` is documented as iter(Feature); with a one-shot iterable (generator, iter(...), map(...)) the second traversal is
empty, so valid features are accepted and then silently dropped: no err / stall / ... member, although the parameter names them.

    /venv/bin/python defects/d13_signature_features_iterated_twice.py      # exit 1 before the repair, exit 0 after
"""
import sys
sys.path.insert(0, "/repo")
from amaranth_soc import wishbone

sig = wishbone.Signature(addr_width=4, data_width=8, features=iter(["err", "stall"]))
ref = wishbone.Signature(addr_width=4, data_width=8, features=["err", "stall"])
ok = sig.features == ref.features and set(sig.members) == set(ref.members) and sig == ref
print("features from an iterator:", sorted(f.value for f in sig.features), "members:", sorted(sig.members))
print("ok" if ok else "DEFECT: the features given through a one-shot iterable are dropped")
sys.exit(0 if ok else 1)
