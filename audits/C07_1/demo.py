# C07_1: a one-word Wishbone subordinate (addr_width=0, granularity == data_width) occupies TWO words of a
# wishbone.Decoder, and both words are routed to its single word (the window offset 1 is delivered as offset 0).
# The memory map reports two distinct locations; the hardware has one.
import sys, warnings
warnings.simplefilter("ignore")
from amaranth import *
from amaranth.lib import wiring
from amaranth.sim import Simulator
from amaranth_soc import wishbone
from amaranth_soc.memory import MemoryMap


class Res(wiring.Component):
    def __init__(self):
        super().__init__({})


def main():
    dec = wishbone.Decoder(addr_width=4, data_width=32)          # 16 words of 32 bits, granularity 32
    sub = wishbone.Interface(addr_width=0, data_width=32)         # exactly one 32-bit word, `adr` is 0 bits wide
    other = wishbone.Interface(addr_width=1, data_width=32)       # a neighbour, to show the window sizes
    try:
        # The only memory map the one-word interface accepts has addr_width=1 (two addresses):
        # Interface.memory_map requires addr_width == max(1, 0 + 0).
        smap = MemoryMap(addr_width=1, data_width=32)
        ctrl, status = Res(), Res()
        smap.add_resource(ctrl,   name=("ctrl",),   size=1, addr=0)
        smap.add_resource(status, name=("status",), size=1, addr=1)   # accepted: the map has two addresses
        sub.memory_map = smap
        other.memory_map = MemoryMap(addr_width=1, data_width=32)
        dec.add(other, name="other")
        start, stop, ratio = dec.add(sub, name="sub")
    except (ValueError, TypeError) as e:
        print("refused with a descriptive error:", e)
        print("ok")
        return 0

    mm = dec.bus.memory_map
    i_ctrl, i_status = mm.find_resource(ctrl), mm.find_resource(status)
    print(f"window of the one-word subordinate: {start:#x}..{stop:#x}  ({stop - start} decoder words)")
    print(f"map: ctrl   at {i_ctrl.start:#x}..{i_ctrl.end:#x}")
    print(f"map: status at {i_status.start:#x}..{i_status.end:#x}")

    seen = {}
    sim = Simulator(dec)

    async def tb(ctx):
        for adr in range(start, stop):
            ctx.set(dec.bus.adr, adr)
            ctx.set(dec.bus.cyc, 1)
            ctx.set(dec.bus.stb, 1)
            ctx.set(sub.dat_r, 0xC0FFEE00)        # the subordinate's one and only word
            ctx.set(sub.ack, ctx.get(sub.cyc) & ctx.get(sub.stb))
            seen[adr] = (ctx.get(sub.cyc), len(sub.adr), ctx.get(dec.bus.ack), ctx.get(dec.bus.dat_r))
            print(f"hw:  decoder adr={adr:#x} (window offset {adr - start}) -> sub.cyc={seen[adr][0]} "
                  f"sub.adr is {len(sub.adr)} bits wide, upstream ack={seen[adr][2]} dat_r={seen[adr][3]:#x}")
            await ctx.delay(1e-9)
    sim.add_testbench(tb)
    sim.run()

    selected = [adr for adr, s in seen.items() if s[0]]
    if len(selected) > 1:
        print(f"DEFECT: {len(selected)} different decoder addresses {[hex(a) for a in selected]} select the subordinate, "
              f"which has a single word and receives no address: window offset 1 is delivered as offset 0, and the "
              f"resources 'ctrl' and 'status' that the memory map reports at two different addresses are the same word.")
        return 1
    print("ok")
    return 0


sys.exit(main())
