# amaranth: UnusedElaboratable=no
"""C18 (minor): the text of the ValueError raised for a refused name depends on PYTHONHASHSEED.

A name that conflicts with two visible names that differ only by "string '0' versus integer 0"
is correctly refused, but the order of the "- ... conflicts with local name ..." lines of the
message changes from one interpreter run to the next, because _Namespace.is_available() sorts
a *set* with a key that maps '0' and 0 to the same string.

The script re-runs the same three calls in child interpreters with different hash seeds and
compares the messages. Exit 1 while the messages differ, "ok"/exit 0 once they are identical.
"""
import os
import subprocess
import sys

CHILD = r'''
from amaranth.lib import wiring
from amaranth_soc.memory import MemoryMap

class Res(wiring.Component):
    def __init__(self, tag):
        self.tag = tag
        super().__init__({})
    def __repr__(self):
        return f"Res({self.tag})"

mm = MemoryMap(addr_width=8, data_width=8)
mm.add_resource(Res("str"), name=("a", "0"), size=1)
mm.add_resource(Res("int"), name=("a", 0),   size=1)
try:
    mm.add_resource(Res("new"), name=("a",), size=1)
except ValueError as e:
    print(str(e).replace("\n", " | "))
else:
    print("NOT REFUSED")
'''

messages = {}
for seed in range(8):
    env = dict(os.environ, PYTHONHASHSEED=str(seed))
    out = subprocess.run([sys.executable, "-W", "ignore", "-c", CHILD], env=env, text=True,
                         stdout=subprocess.PIPE, stderr=subprocess.PIPE)
    if out.returncode != 0:
        print(out.stderr)
        sys.exit(2)
    msg = out.stdout.strip()
    messages.setdefault(msg, []).append(seed)

for msg, seeds in messages.items():
    print(f"PYTHONHASHSEED in {seeds}:\n    {msg}")

if any("NOT REFUSED" in msg for msg in messages):
    print("FAIL: the conflicting name was accepted")
    sys.exit(1)
if len(messages) > 1:
    print(f"FAIL: the same refused call produced {len(messages)} different error messages "
          f"depending on the hash seed")
    sys.exit(1)
print("ok")
